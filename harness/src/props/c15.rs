//! C15 — decoders and loaders reject malformed bytes with an error, never a crash.
//!
//! Every cell is one parser (or one parser family selected by `aux`).  A case is either a
//! *mutated valid encoding* (the valid encoding is produced inside `run` by the matching
//! encoder from a small generated seed payload, then a generated fault sequence is applied) or
//! *arbitrary bytes*.  The oracle is the statement itself: the call returns `Ok` or `Err`; a
//! panic, a worker death, a hang or an allocation far beyond the input size is a violation.
//! No semantic claim is made about `Ok` values.

use crate::engine::{alloc, clip, decode, fnv, mix, try_call, Ctx, Plan, Prop, Tier};
use crate::gen::{expand, idx, Bytes, Content};
use proptest::prelude::*;
use serde::{Deserialize, Serialize};
use serde_json::Value;
use std::cell::RefCell;

pub struct P;

// ---------------------------------------------------------------------------------------
// case model
// ---------------------------------------------------------------------------------------

/// A position inside an encoding: small absolute offset (headers), relative (monotone map of a
/// u16 onto 0..=len), or distance from the end (trailers / final state words).
#[derive(Clone, Debug, Serialize, Deserialize)]
pub enum Pos {
    A(u8),
    R(u16),
    E(u8),
}

impl Pos {
    /// index in 0..=len
    fn at(&self, len: usize) -> usize {
        match self {
            Pos::A(a) => (*a as usize).min(len),
            Pos::R(r) => idx(*r, len + 1),
            Pos::E(e) => len.saturating_sub(*e as usize),
        }
    }
}

#[derive(Clone, Debug, Serialize, Deserialize)]
pub enum Fault {
    /// keep only the first `at` bytes
    Trunc(Pos),
    /// substitute one byte
    Set(Pos, u8),
    /// flip one bit
    Flip(Pos, u8),
    /// overwrite a w-byte window (w = 2/4/8, optionally aligned down to w) with
    /// k: 0 = 0xFF.., 1 = 0x7F.. (LE max positive), 2 = len+1, 3 = len-1, 4 = 0, 5 = 0x80.. (LE)
    Win { at: Pos, w: u8, k: u8, aligned: bool },
    /// insert n bytes copied from another place of the encoding
    Splice { dst: Pos, src: Pos, n: u8 },
    /// append garbage
    Append(Bytes),
    /// delete n bytes
    Cut(Pos, u8),
    /// add or subtract one to the little-endian integer of width w (1/2/4/8) found at `at`:
    /// an index or count that was the largest valid one becomes the first invalid one
    Nudge { at: Pos, w: u8, up: bool },
    /// copy the w-byte field at `src` over the one at `dst` (an index equal to a count, ...)
    CopyField { dst: Pos, src: Pos, w: u8 },
    /// append `kib` KiB (64..=160) of plausible filler: a corrupt length field is then followed by
    /// more real data than any first chunk / "remaining input" plausibility test looks at
    Pad { kib: u8, byte: u8 },
}

impl Fault {
    fn name(&self) -> &'static str {
        match self {
            Fault::Trunc(_) => "trunc",
            Fault::Set(..) => "set",
            Fault::Flip(..) => "flip",
            Fault::Win { .. } => "window",
            Fault::Splice { .. } => "splice",
            Fault::Append(_) => "append",
            Fault::Cut(..) => "cut",
            Fault::Nudge { .. } => "nudge",
            Fault::CopyField { .. } => "copy_field",
            Fault::Pad { .. } => "pad_64k+",
        }
    }
    fn apply(&self, b: &mut Vec<u8>, true_len: usize) {
        let len = b.len();
        match self {
            Fault::Trunc(p) => b.truncate(p.at(len)),
            Fault::Set(p, v) => {
                if len > 0 {
                    let i = p.at(len - 1);
                    b[i] = *v;
                }
            }
            Fault::Flip(p, bit) => {
                if len > 0 {
                    let i = p.at(len - 1);
                    b[i] ^= 1 << (bit % 8);
                }
            }
            Fault::Win { at, w, k, aligned } => {
                let w = match w {
                    2 => 2usize,
                    8 => 8,
                    _ => 4,
                };
                if len >= w {
                    let mut i = at.at(len - w);
                    if *aligned {
                        i -= i % w;
                    }
                    let v: u64 = match k % 6 {
                        0 => u64::MAX,
                        1 => u64::MAX >> 1,
                        2 => true_len as u64 + 1,
                        3 => (true_len as u64).wrapping_sub(1),
                        4 => 0,
                        _ => 1u64 << 63,
                    };
                    // little-endian field of width w holding the (truncated / shifted) value
                    let le = match k % 6 {
                        1 => ((1u128 << (8 * w as u32 - 1)) - 1) as u64,
                        5 => 1u64 << (8 * w as u32 - 1),
                        _ => v,
                    }
                    .to_le_bytes();
                    b[i..i + w].copy_from_slice(&le[..w]);
                }
            }
            Fault::Splice { dst, src, n } => {
                if len > 0 {
                    let s = src.at(len - 1);
                    let e = (s + *n as usize + 1).min(len);
                    let chunk = b[s..e].to_vec();
                    let d = dst.at(len);
                    b.splice(d..d, chunk);
                }
            }
            Fault::Append(g) => b.extend_from_slice(&g.0),
            Fault::Cut(p, n) => {
                if len > 0 {
                    let s = p.at(len - 1);
                    let e = (s + *n as usize + 1).min(len);
                    b.drain(s..e);
                }
            }
            Fault::Nudge { at, w, up } => {
                let w = match w {
                    1 => 1usize,
                    2 => 2,
                    8 => 8,
                    _ => 4,
                };
                if len >= w {
                    let i = at.at(len - w);
                    let mut le = [0u8; 8];
                    le[..w].copy_from_slice(&b[i..i + w]);
                    let v = u64::from_le_bytes(le);
                    let v = if *up { v.wrapping_add(1) } else { v.wrapping_sub(1) };
                    b[i..i + w].copy_from_slice(&v.to_le_bytes()[..w]);
                }
            }
            Fault::Pad { kib, byte } => {
                let n = (*kib as usize).clamp(64, 160) * 1024 + 17;
                b.extend((0..n).map(|i| byte.wrapping_add((i % 251) as u8)));
            }
            Fault::CopyField { dst, src, w } => {
                let w = match w {
                    1 => 1usize,
                    2 => 2,
                    8 => 8,
                    _ => 4,
                };
                if len >= w {
                    let s = src.at(len - w);
                    let d = dst.at(len - w);
                    let chunk = b[s..s + w].to_vec();
                    b[d..d + w].copy_from_slice(&chunk);
                }
            }
        }
    }
}

/// The expected-length argument handed to decoders that take one.
#[derive(Clone, Copy, Debug, PartialEq, Eq, Serialize, Deserialize)]
pub enum LenArg {
    True,
    Zero,
    One,
    Plus1,
    Minus1,
    Double,
    Mi1,
    Mi128,
    U32Max,
    UsizeMax,
}

impl LenArg {
    fn value(self, t: usize) -> usize {
        match self {
            LenArg::True => t,
            LenArg::Zero => 0,
            LenArg::One => 1,
            LenArg::Plus1 => t + 1,
            LenArg::Minus1 => t.saturating_sub(1),
            LenArg::Double => t * 2 + 3,
            LenArg::Mi1 => 1 << 20,
            LenArg::Mi128 => 1 << 27,
            LenArg::U32Max => u32::MAX as usize,
            LenArg::UsizeMax => usize::MAX,
        }
    }
}

#[derive(Clone, Debug, Serialize, Deserialize)]
pub enum Src {
    /// valid encoding of expand(content, len, seed), then the faults in order
    Mut { content: Content, len: u16, seed: u64, faults: Vec<Fault> },
    /// arbitrary bytes
    Raw(Bytes),
}

#[derive(Clone, Debug, Serialize, Deserialize)]
pub struct Case {
    pub src: Src,
    pub len: LenArg,
    /// selects the entry point / configuration preset inside a cell
    pub aux: u8,
}

// ---------------------------------------------------------------------------------------
// generators
// ---------------------------------------------------------------------------------------

fn pos() -> BoxedStrategy<Pos> {
    prop_oneof![
        3 => (0u8..100).prop_map(Pos::A),
        4 => any::<u16>().prop_map(Pos::R),
        2 => (0u8..24).prop_map(Pos::E),
    ]
    .boxed()
}

fn byte_val() -> BoxedStrategy<u8> {
    prop_oneof![3 => any::<u8>(), 3 => proptest::sample::select(vec![0u8, 1, 2, 0x7f, 0x80, 0xfe, 0xff])].boxed()
}

fn fault() -> BoxedStrategy<Fault> {
    prop_oneof![
        4 => pos().prop_map(Fault::Trunc),
        4 => (pos(), byte_val()).prop_map(|(p, v)| Fault::Set(p, v)),
        1 => (pos(), 0u8..8).prop_map(|(p, b)| Fault::Flip(p, b)),
        6 => (pos(), proptest::sample::select(vec![2u8, 4, 8]), 0u8..6, any::<bool>()).prop_map(|(at, w, k, aligned)| Fault::Win { at, w, k, aligned }),
        1 => (pos(), pos(), 0u8..24).prop_map(|(dst, src, n)| Fault::Splice { dst, src, n }),
        2 => proptest::collection::vec(byte_val(), 1..20).prop_map(|v| Fault::Append(Bytes(v))),
        1 => (pos(), 0u8..9).prop_map(|(p, n)| Fault::Cut(p, n)),
        4 => (pos(), proptest::sample::select(vec![1u8, 1, 2, 4, 4, 8]), any::<bool>()).prop_map(|(at, w, up)| Fault::Nudge { at, w, up }),
        1 => (pos(), pos(), proptest::sample::select(vec![1u8, 2, 4, 8])).prop_map(|(dst, src, w)| Fault::CopyField { dst, src, w }),
    ]
    .boxed()
}

fn len_arg() -> BoxedStrategy<LenArg> {
    prop_oneof![
        // the three huge values are rare here: the fixed enumeration feeds each of them to every
        // cell, and on decoders whose model codes a symbol in zero bits they cost seconds
        16 => Just(LenArg::True),
        3 => Just(LenArg::Zero),
        3 => Just(LenArg::One),
        5 => Just(LenArg::Plus1),
        5 => Just(LenArg::Minus1),
        3 => Just(LenArg::Double),
        3 => Just(LenArg::Mi1),
        1 => Just(LenArg::Mi128),
        1 => Just(LenArg::U32Max),
        1 => Just(LenArg::UsizeMax),
    ]
    .boxed()
}

const CONTENTS: &[Content] = &[
    Content::Constant,
    Content::TwoSymbol,
    Content::KSymbol,
    Content::All256,
    Content::Geometric,
    Content::Order1Skew,
    Content::Periodic,
    Content::Text,
    Content::Uniform,
    Content::Runs,
];

/// mutated valid encodings: seed payload of at most `max` bytes, 0..=3 faults (mostly 1)
fn mutated(max: u16) -> BoxedStrategy<Case> {
    let len = prop_oneof![3 => 0u16..=12.min(max), 5 => 0u16..=max.min(80), 2 => 0u16..=max];
    let faults = prop_oneof![
        30 => Just(vec![]),
        180 => fault().prop_map(|f| vec![f]),
        60 => proptest::collection::vec(fault(), 2..=3),
        // a length-field fault followed by 64-160 KiB of trailing data
        5 => (fault(), 64u8..=160, any::<u8>()).prop_map(|(f, kib, byte)| vec![f, Fault::Pad { kib, byte }]),
    ];
    (proptest::sample::select(CONTENTS.to_vec()), len, any::<u64>(), faults, len_arg(), any::<u8>())
        .prop_map(|(content, len, seed, faults, la, aux)| Case { src: Src::Mut { content, len, seed, faults }, len: la, aux })
        .boxed()
}

/// arbitrary bytes <= `max`
fn arbitrary(max: usize) -> BoxedStrategy<Case> {
    let bytes = prop_oneof![
        4 => proptest::collection::vec(any::<u8>(), 0..=max.min(48)),
        2 => proptest::collection::vec(byte_val(), 0..=max.min(64)),
        2 => proptest::collection::vec(any::<u8>(), 0..=max.min(600)),
        1 => proptest::collection::vec(any::<u8>(), 0..=max),
        1 => (any::<u8>(), 0usize..=max).prop_map(|(b, n)| vec![b; n]),
    ];
    (bytes, len_arg(), any::<u8>()).prop_map(|(b, la, aux)| Case { src: Src::Raw(Bytes(b)), len: la, aux }).boxed()
}

// ---------------------------------------------------------------------------------------
// worker-side helpers
// ---------------------------------------------------------------------------------------

const FIXED_TEXT: &[u8] = b"the quick brown fox jumps over the lazy dog; zipora zipora zipora 0123456789 abababababab the quick brown fox";

/// Everything a runner needs: the (possibly mutated) input, the expected-length argument, the
/// seed payload and whether the input passed the cell's first magic/length gate.
struct Prep {
    bytes: Vec<u8>,
    n: usize,
    mutated: bool,
}

impl Case {
    fn payload(&self) -> Vec<u8> {
        match &self.src {
            Src::Mut { content, len, seed, .. } => expand(*content, *len as usize, *seed),
            Src::Raw(_) => FIXED_TEXT.to_vec(),
        }
    }
    fn is_raw(&self) -> bool {
        matches!(self.src, Src::Raw(_))
    }
}

/// Build the input bytes.  `valid` = (valid encoding, true expected length) or `None` when the
/// encoder refused the seed (then the seed payload itself is mutated: still a byte string).
fn prep(ctx: &mut Ctx, c: &Case, valid: Option<(Vec<u8>, usize)>) -> Prep {
    ctx.label(format!("len_arg={:?}", c.len));
    match &c.src {
        Src::Raw(b) => {
            ctx.label("src=arbitrary");
            ctx.label(match b.0.len() {
                0 => "raw_len=0",
                1..=16 => "raw_len<=16",
                17..=256 => "raw_len<=256",
                _ => "raw_len>256",
            });
            let t = (c.aux as usize) % 97;
            Prep { bytes: b.0.clone(), n: c.len.value(t), mutated: false }
        }
        Src::Mut { content, faults, .. } => {
            ctx.label(format!("seed_{:?}", content));
            let (mut bytes, t) = match valid {
                Some(v) => {
                    ctx.label("src=mutated_valid");
                    v
                }
                None => {
                    ctx.label("src=encoder_refused_seed");
                    let p = c.payload();
                    let l = p.len();
                    (p, l)
                }
            };
            if faults.is_empty() {
                ctx.label("fault=none");
            }
            if std::env::var_os("C15_DEBUG_HEX").is_some() {
                // debugging aid for `verif replay`: show the valid encoding before the faults
                ctx.label(format!("valid_hex={}", crate::gen::hex(&bytes)));
            }
            for f in faults {
                ctx.label(format!("fault={}", f.name()));
                f.apply(&mut bytes, t);
            }
            Prep { bytes, n: c.len.value(t), mutated: true }
        }
    }
}

const MIB64: usize = 64 << 20;

thread_local! {
    /// per-call floor of the allocation threshold (zstd's wrapper reserves a fixed 100 MiB output
    /// bound for every input: a constant, not a length field)
    static ALLOC_FLOOR: std::cell::Cell<usize> = const { std::cell::Cell::new(MIB64) };
}

fn with_alloc_floor<R>(floor: usize, f: impl FnOnce() -> R) -> R {
    let old = ALLOC_FLOOR.with(|c| c.replace(floor));
    let r = f();
    ALLOC_FLOOR.with(|c| c.set(old));
    r
}

/// Run one parser call under the counting allocator's caps; a panic is a violation
/// (`<aspect>/panic/<class>`), and so is a single allocation far beyond the input size.
fn guard<R>(ctx: &mut Ctx, aspect: &str, in_len: usize, n_arg: Option<usize>, f: impl FnOnce() -> R) -> Option<R> {
    alloc::reset_marks();
    alloc::set_caps(1 << 30, 2 << 30);
    let r = try_call(f);
    alloc::clear_caps();
    let big = alloc::biggest();
    ctx.out.checks += 2;
    let thr = ALLOC_FLOOR.with(|c| c.get()).max(in_len.saturating_mul(1024));
    if big > thr {
        let class = match n_arg {
            Some(n) if n >= MIB64 / 16 => "by_len_arg",
            _ => "by_header_field",
        };
        ctx.fail(
            if aspect == "parse" { "alloc" } else { "use_alloc" },
            "mismatch",
            class,
            format!("single allocation of {} bytes for an input of {} bytes (len arg {:?})", big, in_len, n_arg),
        );
    }
    match r {
        Ok(v) => Some(v),
        Err(p) => {
            ctx.fail(aspect, "panic", &p.class(), format!("{}:{}: {}", p.file, p.line, clip(&p.msg, 300)));
            None
        }
    }
}

/// Record the outcome; non-trivial = the input passed the parser's first gate or decoded to Ok
/// (a panic certainly got past the gate).  Returns the Ok value.
fn verdict<T, E>(ctx: &mut Ctx, gate: bool, r: Option<Result<T, E>>) -> Option<T> {
    ctx.label(if gate { "gate=passed" } else { "gate=rejected_early" });
    match r {
        Some(Ok(v)) => {
            ctx.label("out=ok");
            ctx.nontrivial();
            Some(v)
        }
        Some(Err(_)) => {
            ctx.label("out=err");
            if gate {
                ctx.nontrivial();
            }
            None
        }
        None => {
            ctx.label("out=panic");
            ctx.nontrivial();
            None
        }
    }
}

fn set_key(ctx: &mut Ctx, bytes: &[u8], n: Option<usize>, aux: u8) {
    let h = mix(mix(fnv(ctx.cell.as_bytes()), fnv(bytes)), mix(n.unwrap_or(usize::MAX - 7) as u64, aux as u64));
    ctx.out.key = Some(h);
}

fn u64s(p: &[u8]) -> Vec<u64> {
    p.chunks(8)
        .map(|c| {
            let mut b = [0u8; 8];
            b[..c.len()].copy_from_slice(c);
            u64::from_le_bytes(b) >> ((c[0] as u32 * 7) % 64)
        })
        .collect()
}

fn lossy(b: &[u8]) -> String {
    String::from_utf8_lossy(b).into_owned()
}

fn hist(p: &[u8]) -> [u32; 256] {
    let mut f = [0u32; 256];
    for &b in p {
        f[b as usize] += 1;
    }
    f
}

/// `Ok(Some(x))`/`Ok(None)`/`Err` flattened: an encoder that errs or panics = "refused"
fn enc<T>(f: impl FnOnce() -> zipora::Result<T>) -> Option<T> {
    match try_call(f) {
        Ok(Ok(v)) => Some(v),
        _ => None,
    }
}

// ---------------------------------------------------------------------------------------
// canonical order for encodings that zipora writes in HashMap iteration order
// ---------------------------------------------------------------------------------------
// `HuffmanTree::serialize`, `ContextualHuffmanEncoder::serialize` and `Dictionary::serialize`
// iterate a std HashMap, so the byte order of their records differs from process to process.
// A case must mean the same bytes in every worker (shrinking, replay), therefore the records
// of the valid encoding are re-ordered (sorted) here; the result is an equally valid encoding.

fn canon_huff_tree(b: &[u8]) -> Option<Vec<u8>> {
    let n = u16::from_le_bytes([*b.first()?, *b.get(1)?]) as usize;
    let mut recs: Vec<&[u8]> = vec![];
    let mut off = 2;
    for _ in 0..n {
        let len = *b.get(off + 1)? as usize;
        let end = off + 2 + (len + 7) / 8;
        recs.push(b.get(off..end)?);
        off = end;
    }
    if off != b.len() {
        return None;
    }
    recs.sort();
    let mut out = b[..2].to_vec();
    for r in recs {
        out.extend_from_slice(r);
    }
    Some(out)
}

fn canon_ctx_model(b: &[u8]) -> Option<Vec<u8>> {
    // order(1) tree_count(4) context_count(4) [context(4) tree_idx(4)]* [tree_size(4) tree]*
    // The encoder numbers the per-context trees in HashMap iteration order; tree 0 is the
    // order-0 fallback.  Renumber: contexts ascending, their trees in that order.
    let rd = |o: usize| -> Option<usize> { Some(u32::from_le_bytes(b.get(o..o + 4)?.try_into().ok()?) as usize) };
    let ntrees = rd(1)?;
    let nctx = rd(5)?;
    let mut off = 9;
    let mut map: Vec<(u32, usize)> = vec![];
    for _ in 0..nctx {
        map.push((rd(off)? as u32, rd(off + 4)?));
        off += 8;
    }
    let mut trees: Vec<Vec<u8>> = vec![];
    for _ in 0..ntrees {
        let sz = rd(off)?;
        trees.push(canon_huff_tree(b.get(off + 4..off + 4 + sz)?)?);
        off += 4 + sz;
    }
    if off != b.len() {
        return None;
    }
    map.sort();
    let mut new_idx: Vec<Option<usize>> = vec![None; ntrees];
    let mut order: Vec<usize> = vec![];
    if ntrees > 0 {
        new_idx[0] = Some(0);
        order.push(0);
    }
    for &(_, t) in &map {
        if *new_idx.get(t)? == None {
            new_idx[t] = Some(order.len());
            order.push(t);
        }
    }
    for t in 0..ntrees {
        if new_idx[t].is_none() {
            new_idx[t] = Some(order.len());
            order.push(t);
        }
    }
    let mut out = b[..9].to_vec();
    for &(c, t) in &map {
        out.extend_from_slice(&c.to_le_bytes());
        out.extend_from_slice(&(new_idx[t]? as u32).to_le_bytes());
    }
    for &t in &order {
        out.extend_from_slice(&(trees[t].len() as u32).to_le_bytes());
        out.extend_from_slice(&trees[t]);
    }
    Some(out)
}

fn canon_dictionary(b: &[u8]) -> Option<Vec<u8>> {
    let n = u32::from_le_bytes(b.get(..4)?.try_into().ok()?) as usize;
    let mut off = 4;
    let mut recs: Vec<&[u8]> = vec![];
    for _ in 0..n {
        let l = u16::from_le_bytes([*b.get(off)?, *b.get(off + 1)?]) as usize;
        let end = off + 2 + l + 8;
        recs.push(b.get(off..end)?);
        off = end;
    }
    if off != b.len() {
        return None;
    }
    recs.sort();
    let mut out = b[..4].to_vec();
    for r in recs {
        out.extend_from_slice(r);
    }
    Some(out)
}

/// HuffmanCompressor output: tree_size(4) tree_data original_size(4) payload
fn canon_huffman_compressed(b: &[u8]) -> Option<Vec<u8>> {
    let sz = u32::from_le_bytes(b.get(..4)?.try_into().ok()?) as usize;
    let t = canon_huff_tree(b.get(4..4 + sz)?)?;
    let mut out = b[..4].to_vec();
    out.extend_from_slice(&t);
    out.extend_from_slice(&b[4 + sz..]);
    Some(out)
}

/// HybridCompressor output: algorithm id byte, then that algorithm's encoding (0 = Huffman)
fn canon_hybrid(b: &[u8]) -> Option<Vec<u8>> {
    if *b.first()? != 0 {
        return Some(b.to_vec());
    }
    let mut out = vec![0u8];
    out.extend_from_slice(&canon_huffman_compressed(&b[1..])?);
    Some(out)
}

/// bincode of SerializableCache { pattern_map: HashMap<u32, PatternInfo>, config }
fn canon_dfa_cache(b: &[u8]) -> Option<Vec<u8>> {
    let rd = |o: usize| -> Option<usize> { usize::try_from(u64::from_le_bytes(b.get(o..o + 8)?.try_into().ok()?)).ok() };
    let n = rd(0)?;
    let mut off = 8;
    let mut recs: Vec<&[u8]> = vec![];
    for _ in 0..n {
        let plen = rd(off + 4)?;
        let end = off.checked_add(4 + 8)?.checked_add(plen)?.checked_add(8 + 4 + 8)?;
        recs.push(b.get(off..end)?);
        off = end;
    }
    // the u32 keys are state ids handed out in HashMap iteration order: sort the records by
    // their body and renumber 1..=n
    recs.sort_by_key(|r| &r[4..]);
    let mut out = b[..8].to_vec();
    for (i, r) in recs.iter().enumerate() {
        out.extend_from_slice(&(i as u32 + 1).to_le_bytes());
        out.extend_from_slice(&r[4..]);
    }
    out.extend_from_slice(b.get(off..)?);
    Some(out)
}

/// bincode of SerializableDictionary { text: Vec<u8>, dfa_cache_data: Vec<u8>, min, max }
fn canon_sa_dict(b: &[u8]) -> Option<Vec<u8>> {
    let rd = |o: usize| -> Option<usize> { usize::try_from(u64::from_le_bytes(b.get(o..o + 8)?.try_into().ok()?)).ok() };
    let tl = rd(0)?;
    let off = 8usize.checked_add(tl)?;
    let cl = rd(off)?;
    let inner = canon_dfa_cache(b.get(off + 8..(off + 8).checked_add(cl)?)?)?;
    let mut out = b[..off + 8].to_vec();
    out.extend_from_slice(&inner);
    out.extend_from_slice(&b[off + 8 + cl..]);
    Some(out)
}

fn canon(b: Vec<u8>, f: fn(&[u8]) -> Option<Vec<u8>>) -> Vec<u8> {
    f(&b).unwrap_or(b)
}

// ---------------------------------------------------------------------------------------
// entropy: Huffman trees / decoders
// ---------------------------------------------------------------------------------------

use zipora::entropy::dictionary::Dictionary;
use zipora::entropy::rans::{ParallelX1, ParallelX2, ParallelX4, ParallelX8, Rans64Decoder, Rans64Encoder};
use zipora::entropy::{
    fse_compress_with_config, fse_decompress, fse_decompress_with_config, fse_unzip, ContextualHuffmanDecoder, ContextualHuffmanEncoder,
    DictionaryBuilder, DictionaryCompressor, FseConfig, HuffmanDecoder, HuffmanEncoder, HuffmanOrder, HuffmanTree, OptimizedDictionaryCompressor,
};

fn run_huff_tree_deser(ctx: &mut Ctx, c: &Case) {
    let payload = c.payload();
    let tree = enc(|| HuffmanTree::from_data(&payload));
    let valid = tree.as_ref().map(|t| (canon(t.serialize(), canon_huff_tree), payload.len()));
    let p = prep(ctx, c, valid);
    set_key(ctx, &p.bytes, None, 0);
    let gate = p.bytes.len() >= 4 || (p.bytes.len() >= 2 && p.bytes[0] == 0 && p.bytes[1] == 0);
    let r = guard(ctx, "parse", p.bytes.len(), None, || HuffmanTree::deserialize(&p.bytes));
    let Some(t2) = verdict(ctx, gate, r) else { return };
    // use the accepted tree the way HuffmanCompressor::decompress does
    let (data, n) = match enc(|| HuffmanEncoder::new(&payload)?.encode(&payload)) {
        Some(e) if !c.is_raw() => (e, payload.len()),
        _ => (p.bytes.clone(), (p.bytes.len() * 2).min(64)),
    };
    let dec = HuffmanDecoder::new(t2);
    let _ = guard(ctx, "use", data.len(), Some(n), || dec.decode(&data, n).map(|v| v.len()));
}

fn run_huff_decode(ctx: &mut Ctx, c: &Case) {
    let payload = c.payload();
    let (e, valid) = match enc(|| HuffmanEncoder::new(&payload)) {
        Some(e) => {
            let v = enc(|| e.encode(&payload)).map(|b| (b, payload.len()));
            (e, v)
        }
        None => (HuffmanEncoder::new(FIXED_TEXT).expect("fixed text trains"), None),
    };
    let p = prep(ctx, c, valid);
    set_key(ctx, &p.bytes, Some(p.n), 0);
    let dec = HuffmanDecoder::new(e.tree().clone());
    let gate = !p.bytes.is_empty() && p.n > 0;
    let r = guard(ctx, "parse", p.bytes.len(), Some(p.n), || dec.decode(&p.bytes, p.n).map(|v| v.len()));
    verdict(ctx, gate, r);
}

fn order_of(o: u8) -> HuffmanOrder {
    match o % 3 {
        0 => HuffmanOrder::Order0,
        1 => HuffmanOrder::Order1,
        _ => HuffmanOrder::Order2,
    }
}

fn run_ctx_huff_deser(ctx: &mut Ctx, c: &Case) {
    let payload = c.payload();
    let order = order_of(c.aux);
    ctx.label(format!("order={}", c.aux % 3));
    let e = enc(|| ContextualHuffmanEncoder::new(&payload, order));
    let valid = e.as_ref().map(|e| (canon(e.serialize(), canon_ctx_model), payload.len()));
    let p = prep(ctx, c, valid);
    set_key(ctx, &p.bytes, None, c.aux % 3);
    let gate = p.bytes.len() >= 9 && p.bytes[0] <= 2;
    let r = guard(ctx, "parse", p.bytes.len(), None, || ContextualHuffmanEncoder::deserialize(&p.bytes));
    let Some(e2) = verdict(ctx, gate, r) else { return };
    // a payload encoded by the genuine encoder, decoded with the accepted (possibly corrupt) model
    let (data, n) = match e.as_ref().and_then(|e| enc(|| e.encode(&payload))) {
        Some(d) => (d, payload.len()),
        None => (FIXED_TEXT.to_vec(), 40),
    };
    if (c.aux / 3) % 2 == 1 && e2.order() == HuffmanOrder::Order1 {
        ctx.label("use=decode_x2");
        let _ = guard(ctx, "use", data.len(), Some(n), || e2.decode_x2(&data, n).map(|v| v.len()));
    } else {
        ctx.label("use=decode");
        let dec = ContextualHuffmanDecoder::new(e2);
        let _ = guard(ctx, "use", data.len(), Some(n), || dec.decode(&data, n).map(|v| v.len()));
    }
}

fn run_ctx_decode(ctx: &mut Ctx, c: &Case, order: u8) {
    let payload = c.payload();
    let (e, valid) = match enc(|| ContextualHuffmanEncoder::new(&payload, order_of(order))) {
        Some(e) => {
            let v = enc(|| e.encode(&payload)).map(|b| (b, payload.len()));
            (e, v)
        }
        None => match enc(|| ContextualHuffmanEncoder::new(FIXED_TEXT, order_of(order))) {
            Some(e) => (e, None),
            None => {
                ctx.skip("no contextual model for the fixed text");
                return;
            }
        },
    };
    let p = prep(ctx, c, valid);
    set_key(ctx, &p.bytes, Some(p.n), 0);
    let dec = ContextualHuffmanDecoder::new(e);
    let gate = !p.bytes.is_empty() && p.n > 0;
    let r = guard(ctx, "parse", p.bytes.len(), Some(p.n), || dec.decode(&p.bytes, p.n).map(|v| v.len()));
    verdict(ctx, gate, r);
}

fn run_il_decode(ctx: &mut Ctx, c: &Case, ways: u8) {
    let payload = c.payload();
    let train: &[u8] = if payload.is_empty() { FIXED_TEXT } else { &payload };
    let Some(e) = enc(|| ContextualHuffmanEncoder::new(train, HuffmanOrder::Order1)) else {
        ctx.label("model_refused");
        return;
    };
    let valid = enc(|| match ways {
        1 => e.encode_x1(&payload),
        2 => e.encode_x2(&payload),
        4 => e.encode_x4(&payload),
        _ => e.encode_x8(&payload),
    })
    .map(|b| (b, payload.len()));
    let p = prep(ctx, c, valid);
    set_key(ctx, &p.bytes, Some(p.n), 0);
    let gate = !p.bytes.is_empty() && p.n > 0;
    let r = guard(ctx, "parse", p.bytes.len(), Some(p.n), || {
        match ways {
            1 => e.decode_x1(&p.bytes, p.n),
            2 => e.decode_x2(&p.bytes, p.n),
            4 => e.decode_x4(&p.bytes, p.n),
            _ => e.decode_x8(&p.bytes, p.n),
        }
        .map(|v| v.len())
    });
    verdict(ctx, gate, r);
}

fn run_rans<V: zipora::entropy::rans::ParallelVariant>(ctx: &mut Ctx, c: &Case) {
    let payload = c.payload();
    let f = if payload.is_empty() { hist(FIXED_TEXT) } else { hist(&payload) };
    let Some(e) = enc(|| Rans64Encoder::<V>::new(&f)) else {
        ctx.label("model_refused");
        return;
    };
    let valid = enc(|| e.encode(&payload)).map(|b| (b, payload.len()));
    let p = prep(ctx, c, valid);
    set_key(ctx, &p.bytes, Some(p.n), 0);
    let gate = p.n > 0 && p.bytes.len() >= if V::N == 1 || p.n < V::N { 8 } else { V::N * 12 };
    let r = guard(ctx, "parse", p.bytes.len(), Some(p.n), || {
        let d = Rans64Decoder::<V>::new(&e);
        d.decode(&p.bytes, p.n).map(|v| v.len())
    });
    verdict(ctx, gate, r);
}

fn fse_cfg(name: &str) -> FseConfig {
    match name {
        "fast" => FseConfig::fast_compression(),
        "high" => FseConfig::high_compression(),
        "realtime" => FseConfig::realtime(),
        _ => FseConfig::default(),
    }
}

/// mode: "default" | "fast" | "high" | "realtime" (with_config), "plain" (fse_decompress), "unzip"
fn run_fse(ctx: &mut Ctx, c: &Case, mode: &str) {
    let payload = c.payload();
    let cfg = fse_cfg(mode);
    let valid = enc(|| fse_compress_with_config(&payload, cfg.clone())).map(|b| (b, payload.len()));
    let p = prep(ctx, c, valid);
    set_key(ctx, &p.bytes, None, 0);
    let gate = p.bytes.len() >= 5 && (u32::from_le_bytes([p.bytes[0], p.bytes[1], p.bytes[2], p.bytes[3]]) != 0);
    let r = guard(ctx, "parse", p.bytes.len(), None, || {
        match mode {
            "plain" => fse_decompress(&p.bytes),
            "unzip" => fse_unzip(&p.bytes),
            _ => fse_decompress_with_config(&p.bytes, cfg.clone()),
        }
        .map(|v| v.len())
    });
    verdict(ctx, gate, r);
}

// ---------------------------------------------------------------------------------------
// entropy: dictionary (LZ77-style) codecs
// ---------------------------------------------------------------------------------------

fn small_dict(train: &[u8]) -> Dictionary {
    DictionaryBuilder::new().min_match_length(3).max_match_length(16).max_entries(24).build(train)
}

fn run_dict_deser(ctx: &mut Ctx, c: &Case) {
    let payload = c.payload();
    let valid = match try_call(|| small_dict(&payload).serialize()) {
        Ok(b) => Some((canon(b, canon_dictionary), payload.len())),
        Err(_) => None,
    };
    let p = prep(ctx, c, valid);
    set_key(ctx, &p.bytes, None, 0);
    let gate = p.bytes.len() >= 4 && (p.bytes.len() >= 14 || p.bytes[..4] == [0, 0, 0, 0]);
    let r = guard(ctx, "parse", p.bytes.len(), None, || Dictionary::deserialize(&p.bytes));
    let Some(d) = verdict(ctx, gate, r) else { return };
    let comp = DictionaryCompressor::new(d);
    let data = enc(|| comp.compress(&payload)).unwrap_or_default();
    let _ = guard(ctx, "use", data.len(), None, || comp.decompress(&data).map(|v| v.len()));
}

fn lz_gate(b: &[u8]) -> bool {
    match b.first() {
        Some(0) => b.len() >= 2,
        Some(1) => b.len() >= 9,
        _ => false,
    }
}

fn run_dict_decompress(ctx: &mut Ctx, c: &Case) {
    let payload = c.payload();
    let comp = DictionaryCompressor::new(small_dict(FIXED_TEXT));
    let valid = enc(|| comp.compress(&payload)).map(|b| (b, payload.len()));
    let p = prep(ctx, c, valid);
    set_key(ctx, &p.bytes, None, 0);
    let r = guard(ctx, "parse", p.bytes.len(), None, || comp.decompress(&p.bytes).map(|v| v.len()));
    verdict(ctx, lz_gate(&p.bytes), r);
}

fn run_optdict_decompress(ctx: &mut Ctx, c: &Case) {
    let payload = c.payload();
    let train: &[u8] = if payload.len() < 4 { FIXED_TEXT } else { &payload };
    let Some(comp) = enc(|| OptimizedDictionaryCompressor::new(train)) else {
        ctx.label("model_refused");
        return;
    };
    let valid = enc(|| comp.compress(&payload)).map(|b| (b, payload.len()));
    let p = prep(ctx, c, valid);
    set_key(ctx, &p.bytes, None, 0);
    let r = guard(ctx, "parse", p.bytes.len(), None, || comp.decompress(&p.bytes).map(|v| v.len()));
    verdict(ctx, lz_gate(&p.bytes), r);
}

// ---------------------------------------------------------------------------------------
// compression layer
// ---------------------------------------------------------------------------------------

use std::sync::Arc;
use zipora::compression::dict_zip::compression_types::{apply_fse_compression, fse_unzip_reference, remove_fse_compression, FseConfig as PzFseConfig};
use zipora::compression::dict_zip::{
    decode_match, decode_matches, encode_matches, BitReader, DfaCache, DfaCacheConfig, DictionaryBuilder as PzDictBuilder, DictionaryBuilderConfig, Match,
    PaZipCompressor, PaZipCompressorConfig, SuffixArrayDictionary,
};
use zipora::compression::{
    decompress_with_simd_lz77, AdaptiveCompressor, Algorithm, CompressorFactory, PerformanceRequirements, SimdLz77Compressor,
    SimdLz77CompressorX1, SimdLz77CompressorX2, SimdLz77CompressorX4, SimdLz77CompressorX8,
};
use zipora::memory::{SecureMemoryPool, SecurePoolConfig};

/// `ZstdCompressor::decompress` passes a fixed 100 MiB capacity to zstd::bulk::decompress
const ZSTD_FLOOR: usize = 101 << 20;

fn algorithm(name: &str) -> Algorithm {
    match name {
        "none" => Algorithm::None,
        "lz4" => Algorithm::Lz4,
        "zstd" => Algorithm::Zstd(3),
        "huffman" => Algorithm::Huffman,
        "rans" => Algorithm::Rans,
        "dictionary" => Algorithm::Dictionary,
        "simdlz77" => Algorithm::SimdLz77,
        _ => Algorithm::Hybrid,
    }
}

fn compressor_gate(name: &str, b: &[u8]) -> bool {
    match name {
        "none" => true,
        "lz4" => b.len() >= 5,
        "zstd" => b.len() >= 4 && b[..4] == [0x28, 0xB5, 0x2F, 0xFD],
        "huffman" => b.len() >= 8 && (u32::from_le_bytes([b[0], b[1], b[2], b[3]]) as usize) + 8 <= b.len(),
        "rans" => b.len() >= 1028 + 8,
        "dictionary" => lz_gate(b),
        "simdlz77" => b.len() >= 4 && (u32::from_le_bytes([b[0], b[1], b[2], b[3]]) as usize) + 4 == b.len(),
        _ => b.len() >= 2 && b[0] <= 2,
    }
}

fn run_compressor(ctx: &mut Ctx, c: &Case, name: &str) {
    let payload = c.payload();
    let train: &[u8] = if payload.is_empty() { FIXED_TEXT } else { &payload };
    let Some(comp) = enc(|| CompressorFactory::create(algorithm(name), Some(train))) else {
        ctx.label("create_refused");
        return;
    };
    let valid = enc(|| comp.compress(&payload)).map(|b| {
        let b = match name {
            "huffman" => canon(b, canon_huffman_compressed),
            "hybrid" => canon(b, canon_hybrid),
            _ => b,
        };
        (b, payload.len())
    });
    let p = prep(ctx, c, valid);
    set_key(ctx, &p.bytes, None, 0);
    let floor = if name == "zstd" { ZSTD_FLOOR } else { MIB64 };
    let r = with_alloc_floor(floor, || guard(ctx, "parse", p.bytes.len(), None, || comp.decompress(&p.bytes).map(|v| v.len())));
    verdict(ctx, compressor_gate(name, &p.bytes), r);
}

fn run_adaptive(ctx: &mut Ctx, c: &Case) {
    let payload = c.payload();
    let Some(mut a) = enc(|| AdaptiveCompressor::default_with_requirements(PerformanceRequirements::default())) else {
        ctx.skip("adaptive compressor unavailable");
        return;
    };
    let name = ["lz4", "zstd", "none", "simdlz77"][(c.aux % 4) as usize];
    ctx.label(format!("adaptive_alg={name}"));
    if name != "lz4" && enc(|| a.set_algorithm(algorithm(name))).is_none() {
        ctx.label("set_algorithm_refused");
        return;
    }
    // the algorithm is pinned first; `compress` itself may adapt, so the valid encoding comes
    // from the same factory compressor the decompress path will use
    let valid = enc(|| CompressorFactory::create(algorithm(name), None)?.compress(&payload)).map(|b| (b, payload.len()));
    let p = prep(ctx, c, valid);
    set_key(ctx, &p.bytes, None, c.aux % 4);
    let floor = if name == "zstd" { ZSTD_FLOOR } else { MIB64 };
    let r = with_alloc_floor(floor, || guard(ctx, "parse", p.bytes.len(), None, || a.decompress(&p.bytes).map(|v| v.len())));
    verdict(ctx, compressor_gate(name, &p.bytes), r);
}

fn run_simd_lz77(ctx: &mut Ctx, c: &Case) {
    let payload = c.payload();
    let Some(mut base) = enc(SimdLz77Compressor::new) else {
        ctx.skip("SimdLz77Compressor::new failed");
        return;
    };
    let valid = enc(|| SimdLz77Compressor::compress(&mut base, &payload)).map(|b| (b, payload.len()));
    let p = prep(ctx, c, valid);
    let which = c.aux % 6;
    ctx.label(format!("lz77_entry={}", ["inherent", "x1", "x2", "x4", "x8", "global_fn"][which as usize]));
    set_key(ctx, &p.bytes, None, which);
    let gate = p.bytes.len() >= 1;
    let r = guard(ctx, "parse", p.bytes.len(), None, || {
        match which {
            // inherent method (the `Compressor` trait impl of this type is a different, stub format)
            0 => SimdLz77Compressor::decompress(&mut base, &p.bytes),
            1 => SimdLz77CompressorX1::new()?.decompress(&p.bytes),
            2 => SimdLz77CompressorX2::new()?.decompress(&p.bytes),
            3 => SimdLz77CompressorX4::new()?.decompress(&p.bytes),
            4 => SimdLz77CompressorX8::new()?.decompress(&p.bytes),
            _ => decompress_with_simd_lz77(&p.bytes),
        }
        .map(|v| v.len())
    });
    verdict(ctx, gate, r);
}

thread_local! {
    static PAZIP: RefCell<Option<PaZipCompressor>> = const { RefCell::new(None) };
    static SA_DICT_BYTES: RefCell<Option<Vec<u8>>> = const { RefCell::new(None) };
}

fn pazip_corpus() -> Vec<u8> {
    expand(Content::Text, 1500, 0xC15)
}

fn build_sa_dict(corpus: &[u8]) -> Option<SuffixArrayDictionary> {
    enc(|| PzDictBuilder::with_config(DictionaryBuilderConfig::default()).build(corpus))
}

fn with_pazip<R>(f: impl FnOnce(&mut PaZipCompressor) -> R) -> Option<R> {
    PAZIP.with(|cell| {
        let mut slot = cell.borrow_mut();
        if slot.is_none() {
            let dict = build_sa_dict(&pazip_corpus())?;
            let pool = enc(|| SecureMemoryPool::new(SecurePoolConfig::new(4096, 1024, 8)))?;
            *slot = enc(|| PaZipCompressor::new(dict, PaZipCompressorConfig::default(), pool as Arc<SecureMemoryPool>));
        }
        slot.as_mut().map(f)
    })
}

/// Token stream in the byte format `PaZipCompressor::decompress` reads (type byte + fields).
fn pazip_script(r: &[u8]) -> Vec<u8> {
    let mut out = vec![0u8, 4, b'a', b'b', b'c', b'd'];
    for w in r.chunks(6) {
        let g = |i: usize| *w.get(i).unwrap_or(&1);
        match g(0) % 8 {
            0 => {
                let n = g(1) % 12;
                out.extend_from_slice(&[0, n]);
                out.extend((0..n).map(|i| g(2 + i as usize % 4)));
            }
            1 => out.extend_from_slice(&[1, g(1), g(2) % 8, g(3), g(4) % 4]),
            2 => out.extend_from_slice(&[2, g(1), g(2)]),
            t @ (3 | 4) => out.extend_from_slice(&[t, if g(3) % 4 == 0 { g(1) } else { 1 + g(1) % 4 }, g(2)]),
            5 => out.extend_from_slice(&[5, 1 + g(1) % 4, if g(3) % 4 == 0 { g(4) } else { 0 }, g(2)]),
            6 => out.extend_from_slice(&[6, 1 + g(1) % 4, 0, g(2), g(3)]),
            _ => out.extend_from_slice(&[7, 1 + g(1) % 4, 0, 0, if g(5) % 8 == 0 { g(1) } else { 0 }, g(2), g(3), g(4) % 64, if g(5) % 4 == 0 { g(5) } else { 0 }]),
        }
    }
    out
}

fn run_pazip_decompress(ctx: &mut Ctx, c: &Case) {
    let payload = c.payload();
    let valid = with_pazip(|z| {
        let mut out = Vec::new();
        match try_call(|| z.compress(&payload, &mut out)) {
            Ok(Ok(_)) => Some((out, payload.len())),
            _ => None,
        }
    });
    let Some(valid) = valid else {
        ctx.skip("PA-Zip compressor unavailable");
        return;
    };
    let mut p = prep(ctx, c, valid);
    if c.is_raw() && c.aux >= 128 {
        // arbitrary bytes re-read as a well-formed token script (literal first, then tokens
        // whose distances mostly point into the produced output): reaches the copy loops
        ctx.label("src=token_script");
        p.bytes = pazip_script(&p.bytes);
    }
    set_key(ctx, &p.bytes, None, 0);
    let gate = p.bytes.len() >= 2;
    let r = with_pazip(|z| {
        guard(ctx, "parse", p.bytes.len(), None, || {
            let mut out = Vec::new();
            z.decompress(&p.bytes, &mut out).map(|()| out.len())
        })
    })
    .flatten();
    if r.is_none() {
        // a panic may leave the cached compressor in an unknown state
        PAZIP.with(|cell| *cell.borrow_mut() = None);
    }
    verdict(ctx, gate, r);
}

fn matches_from(p: &[u8]) -> Vec<Match> {
    let mut v = vec![];
    for w in p.chunks(4) {
        let a = w[0];
        let b = *w.get(1).unwrap_or(&3);
        let d = *w.get(2).unwrap_or(&7) as u32;
        let e = *w.get(3).unwrap_or(&1) as u32;
        let m = match a % 8 {
            0 => Match::literal(1 + b % 32),
            1 => Match::global(d << 8 | e, 6 + b as u16),
            2 => Match::rle(b, 2 + (d % 32) as u8),
            3 => Match::near_short(2 + b % 8, 2 + (d % 4) as u8),
            4 => Match::far1_short(2 + b as u16, 2 + (d % 32) as u8),
            5 => Match::far2_short(258 + (d << 8 | e), 2 + b % 32),
            6 => Match::far2_long((d << 8 | e) as u16, 34 + b as u16 * 3),
            _ => Match::far3_long(d << 16 | e << 8 | b as u32, 34 + (d * 300 + e)),
        };
        if let Ok(m) = m {
            v.push(m);
        }
    }
    v
}

fn run_pazip_decode_matches(ctx: &mut Ctx, c: &Case) {
    let payload = c.payload();
    let ms = matches_from(&payload);
    let valid = enc(|| encode_matches(&ms)).map(|(b, _)| (b, ms.len()));
    let p = prep(ctx, c, valid);
    let which = c.aux % 2;
    set_key(ctx, &p.bytes, None, which);
    let gate = !p.bytes.is_empty();
    let r = guard(ctx, "parse", p.bytes.len(), None, || {
        if which == 0 {
            decode_matches(&p.bytes).map(|(m, _)| m.len())
        } else {
            let mut rd = BitReader::new(&p.bytes);
            let mut k = 0usize;
            while rd.has_bits(3) && k < 100_000 {
                decode_match(&mut rd)?;
                k += 1;
            }
            Ok(k)
        }
    });
    verdict(ctx, gate, r);
}

fn run_pazip_remove_fse(ctx: &mut Ctx, c: &Case) {
    let payload = c.payload();
    let cfg = match c.aux % 3 {
        0 => PzFseConfig::for_pa_zip(),
        1 => PzFseConfig::fast_pa_zip(),
        _ => PzFseConfig::default(),
    };
    let valid = enc(|| apply_fse_compression(&payload, &cfg)).map(|b| (b, payload.len()));
    let p = prep(ctx, c, valid);
    let which = (c.aux / 3) % 2;
    set_key(ctx, &p.bytes, None, c.aux % 6);
    let gate = p.bytes.len() >= 3;
    let r = guard(ctx, "parse", p.bytes.len(), None, || {
        if which == 0 {
            remove_fse_compression(&p.bytes, &cfg).map(|v| v.len())
        } else {
            let mut out = vec![0u8; 4096];
            fse_unzip_reference(&p.bytes, &mut out)
        }
    });
    verdict(ctx, gate, r);
}

fn run_sa_dict_deser(ctx: &mut Ctx, c: &Case) {
    // one small valid dictionary per worker; the seed only selects the corpus length class
    let valid = SA_DICT_BYTES.with(|cell| {
        let mut s = cell.borrow_mut();
        if s.is_none() {
            *s = build_sa_dict(&expand(Content::Text, 200, 0xD1C7)).and_then(|d| enc(|| d.serialize())).map(|b| canon(b, canon_sa_dict));
        }
        s.clone()
    });
    let p = prep(ctx, c, valid.map(|b| (b, 200)));
    set_key(ctx, &p.bytes, None, 0);
    let gate = p.bytes.len() >= 8 && (u64::from_le_bytes(p.bytes[..8].try_into().unwrap()) as usize) <= p.bytes.len();
    let r = guard(ctx, "parse", p.bytes.len(), None, || SuffixArrayDictionary::deserialize(&p.bytes));
    let Some(mut d) = verdict(ctx, gate, r) else { return };
    let _ = guard(ctx, "use", p.bytes.len(), None, || {
        let _ = d.validate();
        d.find_longest_match(FIXED_TEXT, 4, 32).map(|m| m.is_some())
    });
}

fn run_dfa_cache_deser(ctx: &mut Ctx, c: &Case) {
    let payload = c.payload();
    let text: &[u8] = if payload.len() < 8 { FIXED_TEXT } else { &payload };
    let valid = enc(|| {
        let sa = zipora::algorithms::suffix_array::SuffixArray::new(text)?;
        DfaCache::build_from_suffix_array(&sa, text, &DfaCacheConfig::default(), 2, 4)?.serialize()
    })
    .map(|b| (canon(b, canon_dfa_cache), text.len()));
    let p = prep(ctx, c, valid);
    set_key(ctx, &p.bytes, None, 0);
    let gate = p.bytes.len() >= 8;
    let r = guard(ctx, "parse", p.bytes.len(), None, || DfaCache::deserialize(&p.bytes));
    let Some(mut d) = verdict(ctx, gate, r) else { return };
    let _ = guard(ctx, "use", p.bytes.len(), None, || {
        let _ = d.validate();
        let _ = d.state_count();
        d.find_longest_prefix(FIXED_TEXT, 16).map(|m| m.is_some())
    });
}

// ---------------------------------------------------------------------------------------
// blob-store and vector file loaders
// ---------------------------------------------------------------------------------------

use zipora::blob_store::{BlobStore, ZReorderMap, ZReorderMapBuilder, ZipOffsetBlobStore, ZipOffsetBlobStoreBuilder};
use zipora::memory::{MmapVec, MmapVecConfig};

fn scratch_file(ctx: &Ctx, name: &str) -> Option<std::path::PathBuf> {
    std::fs::create_dir_all(&ctx.scratch).ok()?;
    Some(ctx.scratch.join(name))
}

fn run_zipoffset_load(ctx: &mut Ctx, c: &Case) {
    let payload = c.payload();
    let valid = enc(|| {
        let mut b = ZipOffsetBlobStoreBuilder::new()?;
        for rec in payload.chunks(7) {
            b.add_record(rec)?;
        }
        let store = b.finish()?;
        let mut out = Vec::new();
        store.save_to_writer(&mut out)?;
        Ok(out)
    })
    .map(|b| (b, payload.len()));
    let p = prep(ctx, c, valid);
    let via_file = c.aux % 4 == 0;
    ctx.label(if via_file { "load=file" } else { "load=reader" });
    set_key(ctx, &p.bytes, None, via_file as u8);
    let gate = p.bytes.len() >= 128 && &p.bytes[..17] == b"zipora-blob-store" && &p.bytes[20..38] == b"ZipOffsetBlobStore" && p.bytes[62] == 1 && p.bytes[63] == 0;
    let r = if via_file {
        let Some(path) = scratch_file(ctx, "c15-zipoffset.bin") else {
            ctx.skip("no scratch dir");
            return;
        };
        if std::fs::write(&path, &p.bytes).is_err() {
            ctx.skip("cannot write scratch file");
            return;
        }
        let r = guard(ctx, "parse", p.bytes.len(), None, || ZipOffsetBlobStore::load_from_file(&path));
        let _ = std::fs::remove_file(&path);
        r
    } else {
        guard(ctx, "parse", p.bytes.len(), None, || ZipOffsetBlobStore::load_from_reader(&mut &p.bytes[..]))
    };
    let Some(store) = verdict(ctx, gate, r) else { return };
    let _ = guard(ctx, "use", p.bytes.len(), None, || {
        let n = store.len();
        let a = store.get(0).map(|v| v.len()).ok();
        let b = store.get(n.saturating_sub(1) as _).map(|v| v.len()).ok();
        (n, a, b, store.memory_usage())
    });
}

fn run_reorder_map_open(ctx: &mut Ctx, c: &Case) {
    let payload = c.payload();
    let Some(path) = scratch_file(ctx, "c15-reorder.map") else {
        ctx.skip("no scratch dir");
        return;
    };
    let sign: i64 = if c.aux % 2 == 0 { 1 } else { -1 };
    // runs of consecutive values (ascending or descending) and isolated values
    let mut vals: Vec<usize> = vec![];
    for w in payload.chunks(2) {
        let base = 1000 + (w[0] as usize) * 300;
        let run = 1 + (*w.get(1).unwrap_or(&0) as usize % 9);
        for k in 0..run {
            vals.push(if sign > 0 { base + k } else { base + 20 - k });
        }
    }
    let valid = enc(|| {
        let mut b = ZReorderMapBuilder::new(&path, vals.len(), sign)?;
        for v in &vals {
            b.push(*v)?;
        }
        b.finish()?;
        Ok(std::fs::read(&path)?)
    })
    .map(|b| (b, vals.len()));
    let p = prep(ctx, c, valid);
    set_key(ctx, &p.bytes, None, 0);
    if std::fs::write(&path, &p.bytes).is_err() {
        ctx.skip("cannot write scratch file");
        return;
    }
    let gate = p.bytes.len() >= 16 && {
        let s = i64::from_le_bytes(p.bytes[8..16].try_into().unwrap());
        s == 1 || s == -1
    };
    let r = guard(ctx, "parse", p.bytes.len(), None, || ZReorderMap::open(&path));
    if let Some(mut m) = verdict(ctx, gate, r) {
        // bounded iteration: the format is run-length coded, the element count is not bounded by
        // the file size, so only the first elements are pulled
        let _ = guard(ctx, "use", p.bytes.len(), None, || {
            let mut k = 0usize;
            let mut acc = 0usize;
            while k < 5000 {
                match m.next() {
                    Some(v) => acc = acc.wrapping_add(v),
                    None => break,
                }
                k += 1;
            }
            let sz = m.size();
            let _ = m.rewind();
            (k, acc, sz, m.eof())
        });
    }
    let _ = std::fs::remove_file(&path);
}

/// Structure-aware inputs for the reorder-map reader: the case's raw bytes are a decision tape
/// that is decoded into a header and a list of well-formed entries (single values and
/// (value, var_uint length) sequences with lengths 0, 1, small, 127/128, non-canonical zero,
/// huge) whose announced size is the sum of all entries, of all but the first, of all but the
/// last, off by one, zero or far too large.  Byte-level mutation of a valid file almost never
/// produces two coordinated fields; this does.
fn reorder_map_from_tape(ctx: &mut Ctx, t: &[u8]) -> Vec<u8> {
    fn var_uint(out: &mut Vec<u8>, mut v: u64) {
        loop {
            let b = (v & 0x7f) as u8;
            v >>= 7;
            if v == 0 {
                out.push(b);
                break;
            }
            out.push(b | 0x80);
        }
    }
    let t0 = t.first().copied().unwrap_or(0);
    let sign: i64 = if t0 & 1 == 0 { 1 } else { -1 };
    let mut body = vec![];
    let mut lens: Vec<u64> = vec![];
    for e in t.get(1..).unwrap_or(&[]).chunks(3) {
        let (k, v, l) = (e[0], *e.get(1).unwrap_or(&0), *e.get(2).unwrap_or(&1));
        let value: u64 = if k & 0x80 != 0 { (1u64 << 39) - 1 - v as u64 } else { 1000 + v as u64 * 300 };
        if k % 4 == 0 {
            body.extend_from_slice(&((value << 1) | 1).to_le_bytes()[..5]);
            lens.push(1);
            continue;
        }
        body.extend_from_slice(&(value << 1).to_le_bytes()[..5]);
        let len: u64 = match l % 8 {
            0 => 0,
            1 => 1,
            2 => 2,
            3 => (l >> 3) as u64,
            4 => 127,
            5 => 128,
            6 => 300,
            _ => 1 << 35,
        };
        if len == 0 {
            ctx.label("entries_zero_length_sequence");
            if lens.is_empty() {
                ctx.label("entries_first_sequence_zero_length");
            }
        }
        if len == 0 && k & 0x20 != 0 {
            body.extend_from_slice(&[0x80, 0x00]); // non-canonical zero
        } else {
            var_uint(&mut body, len);
        }
        lens.push(len);
    }
    let sum = |x: &[u64]| x.iter().fold(0u64, |a, b| a.saturating_add(*b));
    let all = sum(&lens);
    let mode = (t0 >> 1) % 8;
    let size = match mode {
        0 | 1 => all,
        2 => sum(lens.get(1..).unwrap_or(&[])),
        3 => sum(&lens[..lens.len().saturating_sub(1)]),
        4 => all.saturating_add(1),
        5 => all.saturating_sub(1),
        6 => 0,
        _ => all.saturating_add(1 << 40),
    };
    ctx.label(format!("entries_size_mode={}", ["all", "all", "all_but_first", "all_but_last", "plus1", "minus1", "zero", "huge"][mode as usize]));
    ctx.label(match lens.len() {
        0 => "entries=0",
        1 => "entries=1",
        2..=4 => "entries=2-4",
        _ => "entries>=5",
    });
    let mut out = size.to_le_bytes().to_vec();
    out.extend_from_slice(&sign.to_le_bytes());
    out.extend_from_slice(&body);
    if t0 & 0x80 != 0 && t0 & 0x40 != 0 {
        let cut = 1 + (t0 as usize >> 4) % 3;
        out.truncate(out.len().saturating_sub(cut).max(16));
        ctx.label("entries_last_cut");
    }
    out
}

fn run_reorder_map_entries(ctx: &mut Ctx, c: &Case) {
    let Src::Raw(tape) = &c.src else {
        // the fixed fault enumeration (mutated valid files) is the other cell's business
        return run_reorder_map_open(ctx, c);
    };
    let Some(path) = scratch_file(ctx, "c15-reorder-entries.map") else {
        ctx.skip("no scratch dir");
        return;
    };
    ctx.label("src=entry_grammar");
    let bytes = reorder_map_from_tape(ctx, &tape.0);
    set_key(ctx, &bytes, None, 0);
    if std::fs::write(&path, &bytes).is_err() {
        ctx.skip("cannot write scratch file");
        return;
    }
    let r = guard(ctx, "parse", bytes.len(), None, || ZReorderMap::open(&path));
    if let Some(mut m) = verdict(ctx, true, r) {
        let _ = guard(ctx, "use", bytes.len(), None, || {
            let mut k = 0usize;
            let mut acc = 0usize;
            while k < 5000 {
                match m.next() {
                    Some(v) => acc = acc.wrapping_add(v),
                    None => break,
                }
                k += 1;
            }
            let sz = m.size();
            let _ = m.rewind();
            (k, acc, sz, m.eof())
        });
    }
    let _ = std::fs::remove_file(&path);
}

fn run_mmap_vec_open(ctx: &mut Ctx, c: &Case) {
    let payload = c.payload();
    let Some(path) = scratch_file(ctx, "c15-mmapvec.bin") else {
        ctx.skip("no scratch dir");
        return;
    };
    let _ = std::fs::remove_file(&path);
    let vals = u64s(&payload);
    let valid = enc(|| {
        let cfg = MmapVecConfig::builder().with_initial_capacity(4 + vals.len() / 2).build();
        let mut v = MmapVec::<u64>::create(&path, cfg)?;
        for x in &vals {
            v.push(*x)?;
        }
        v.sync()?;
        drop(v);
        Ok(std::fs::read(&path)?)
    })
    .map(|b| (b, vals.len()));
    let p = prep(ctx, c, valid);
    set_key(ctx, &p.bytes, None, c.aux % 2);
    if std::fs::write(&path, &p.bytes).is_err() {
        ctx.skip("cannot write scratch file");
        return;
    }
    let gate = p.bytes.len() >= 16 && p.bytes[..8] == 0x4D4D41505F564543u64.to_le_bytes() && p.bytes[8..16] == [1, 0, 0, 0, 8, 0, 0, 0];
    let cfg = if c.aux % 2 == 0 { MmapVecConfig::read_only() } else { MmapVecConfig::default() };
    let r = guard(ctx, "parse", p.bytes.len(), None, || MmapVec::<u64>::open(&path, cfg));
    if let Some(v) = verdict(ctx, gate, r) {
        let _ = guard(ctx, "use", p.bytes.len(), None, || {
            let n = v.len();
            let a = v.get(0).copied();
            let b = v.get(n.saturating_sub(1)).copied();
            let m = v.get(n / 2).copied();
            let s = v.as_slice();
            let e = s.last().copied();
            (n, a, b, m, e, v.capacity())
        });
    }
    let _ = std::fs::remove_file(&path);
}

// ---------------------------------------------------------------------------------------
// varints
// ---------------------------------------------------------------------------------------

use zipora::io::simd_encoding::varint::{decode_varint, decode_varint_batch, SimdVarintCodec};
use zipora::io::{DataInput, DataOutput, ReaderDataInput, SignedVarInt, SliceDataInput, VarInt, VarIntEncoder, VarIntStrategy, VecDataOutput};

fn run_varint_decode(ctx: &mut Ctx, c: &Case) {
    let payload = c.payload();
    let vals = u64s(&payload);
    let which = c.aux % 5;
    ctx.label(format!("varint_entry={}", ["decode", "decode_multiple", "decode_signed", "slice_read_var_int", "reader_read_var_int"][which as usize]));
    let valid = Some(match which {
        1 => (VarInt::encode_multiple(vals.iter().copied()), vals.len()),
        2 => (VarInt::encode_signed(vals.first().copied().unwrap_or(0) as i64), 1),
        _ => (VarInt::encode(vals.first().copied().unwrap_or(0)), 1),
    });
    let p = prep(ctx, c, valid);
    set_key(ctx, &p.bytes, None, which);
    let gate = !p.bytes.is_empty();
    let r = guard(ctx, "parse", p.bytes.len(), None, || match which {
        0 => VarInt::decode(&p.bytes).map(|(v, n)| v ^ n as u64),
        1 => VarInt::decode_multiple(&p.bytes).map(|v| v.len() as u64),
        2 => VarInt::decode_signed(&p.bytes).map(|(v, n)| v as u64 ^ n as u64),
        3 => SliceDataInput::new(&p.bytes).read_var_int(),
        _ => ReaderDataInput::new(&p.bytes[..]).read_var_int(),
    });
    verdict(ctx, gate, r);
}

const STRATS: &[(&str, VarIntStrategy)] = &[
    ("leb128", VarIntStrategy::Leb128),
    ("zigzag", VarIntStrategy::Zigzag),
    ("delta", VarIntStrategy::Delta),
    ("group", VarIntStrategy::GroupVarint),
    ("prefix_free", VarIntStrategy::PrefixFree),
    ("compact", VarIntStrategy::Compact),
    ("simd", VarIntStrategy::Simd),
];

fn run_varint_strategy(ctx: &mut Ctx, c: &Case, si: usize) {
    let payload = c.payload();
    let e = VarIntEncoder::new(STRATS[si].1);
    let mut u = u64s(&payload);
    if si == 3 {
        // group varint refuses values wider than 32 bits
        for x in u.iter_mut() {
            *x &= 0xFFFF_FFFF;
        }
    }
    if si == 2 {
        u.sort_unstable();
    }
    let i: Vec<i64> = u.iter().map(|x| (*x as i64).wrapping_mul(if x & 1 == 0 { 1 } else { -1 })).collect();
    let which = c.aux % 4;
    ctx.label(format!("strategy_entry={}", ["u64", "i64", "u64_sequence", "i64_sequence"][which as usize]));
    let valid = enc(|| match which {
        0 => e.encode_u64(u.first().copied().unwrap_or(0)),
        1 => e.encode_i64(i.first().copied().unwrap_or(0)),
        2 => e.encode_u64_sequence(&u),
        _ => e.encode_i64_sequence(&i),
    })
    .map(|b| (b, u.len()));
    let p = prep(ctx, c, valid);
    set_key(ctx, &p.bytes, None, which);
    let gate = !p.bytes.is_empty();
    let r = guard(ctx, "parse", p.bytes.len(), None, || match which {
        0 => e.decode_u64(&p.bytes).map(|(_, n)| n),
        1 => e.decode_i64(&p.bytes).map(|(_, n)| n),
        2 => e.decode_u64_sequence(&p.bytes).map(|v| v.len()),
        _ => e.decode_i64_sequence(&p.bytes).map(|v| v.len()),
    });
    verdict(ctx, gate, r);
}

fn run_simd_varint_batch(ctx: &mut Ctx, c: &Case) {
    let payload = c.payload();
    let vals = u64s(&payload);
    let codec = SimdVarintCodec::new();
    let valid = enc(|| codec.encode_batch(&vals)).map(|b| (b, vals.len()));
    let p = prep(ctx, c, valid);
    let which = c.aux % 4;
    ctx.label(format!("simd_varint_entry={}", ["decode_batch", "global_decode_batch", "decode_single", "global_decode_single"][which as usize]));
    set_key(ctx, &p.bytes, Some(p.n), which);
    let gate = !p.bytes.is_empty() && (which >= 2 || p.n > 0);
    let r = guard(ctx, "parse", p.bytes.len(), if which < 2 { Some(p.n) } else { None }, || match which {
        0 => codec.decode_batch(&p.bytes, p.n).map(|v| v.len()),
        1 => decode_varint_batch(&p.bytes, p.n).map(|v| v.len()),
        2 => codec.decode_single(&p.bytes).map(|(_, n)| n),
        _ => decode_varint(&p.bytes).map(|(_, n)| n),
    });
    verdict(ctx, gate, r);
}

// ---------------------------------------------------------------------------------------
// DataInput length-prefixed reads
// ---------------------------------------------------------------------------------------

fn run_data_input(ctx: &mut Ctx, c: &Case, reader: bool) {
    let payload = c.payload();
    let which = c.aux % 6;
    let names = ["lp_bytes", "lp_string", "read_vec", "read_string", "skip", "mixed"];
    ctx.label(format!("data_input_entry={}", names[which as usize]));
    let valid = enc(|| {
        let mut o = VecDataOutput::new();
        match which {
            0 | 2 | 4 => o.write_length_prefixed_bytes(&payload)?,
            1 | 3 => o.write_length_prefixed_string(&lossy(&payload))?,
            _ => {
                o.write_u32(payload.len() as u32)?;
                o.write_length_prefixed_bytes(&payload)?;
                o.write_var_int(payload.len() as u64)?;
                o.write_u64(7)?;
            }
        }
        Ok(o.into_vec())
    })
    .map(|b| (b, payload.len()));
    let p = prep(ctx, c, valid);
    let uses_n = matches!(which, 2 | 3 | 4);
    set_key(ctx, &p.bytes, if uses_n { Some(p.n) } else { None }, which + 8 * reader as u8);
    let gate = !p.bytes.is_empty();
    fn drive<I: DataInput>(i: &mut I, which: u8, n: usize) -> zipora::Result<usize> {
        Ok(match which {
            0 => i.read_length_prefixed_bytes()?.len(),
            1 => i.read_length_prefixed_string()?.len(),
            2 => i.read_vec(n)?.len(),
            3 => i.read_string(n)?.len(),
            4 => {
                i.skip(n)?;
                i.read_u8().map(|b| b as usize).unwrap_or(0)
            }
            _ => {
                let a = i.read_u32()? as usize;
                let b = i.read_length_prefixed_bytes()?.len();
                let v = i.read_var_int()? as usize;
                let d = i.read_u64()? as usize;
                a ^ b ^ v ^ d
            }
        })
    }
    let r = guard(ctx, "parse", p.bytes.len(), if uses_n { Some(p.n) } else { None }, || {
        if reader {
            drive(&mut ReaderDataInput::new(&p.bytes[..]), which, p.n)
        } else {
            drive(&mut SliceDataInput::new(&p.bytes), which, p.n)
        }
    });
    verdict(ctx, gate, r);
}

// ---------------------------------------------------------------------------------------
// complex types / smart pointers / versioned records
// ---------------------------------------------------------------------------------------

use std::collections::{BTreeMap, BTreeSet, HashMap, HashSet};
use zipora::io::{
    ComplexSerialize, ComplexTypeConfig, ComplexTypeSerializer, DeserializationContext, SerializableType, SmartPtrConfig, SmartPtrSerialize,
    SmartPtrSerializer, Version, VersionConfig, VersionManager, VersionProxy, VersionedSerialize, VersionedSerializer,
};

fn cx_config(aux: u8) -> ComplexTypeConfig {
    match aux % 5 {
        0 => ComplexTypeConfig::new(),
        1 => ComplexTypeConfig::safe(),
        2 => ComplexTypeConfig::fast(),
        3 => ComplexTypeConfig::compact(),
        _ => ComplexTypeConfig::compatible(),
    }
}

fn cx_one<T: ComplexSerialize>(ctx: &mut Ctx, c: &Case, v: &T) {
    let ser = ComplexTypeSerializer::new(cx_config(c.aux));
    ctx.label(format!("complex_cfg={}", c.aux % 5));
    let valid = enc(|| ser.serialize_to_bytes(v)).map(|b| (b, 0));
    let p = prep(ctx, c, valid);
    set_key(ctx, &p.bytes, None, c.aux % 5);
    let gate = p.bytes.len() >= 4;
    let r = guard(ctx, "parse", p.bytes.len(), None, || ser.deserialize_from_bytes::<T>(&p.bytes).map(|_| ()));
    verdict(ctx, gate, r);
}

/// Hash collections are written in HashMap iteration order, which differs between processes.
/// The valid encoding is therefore assembled deterministically: zipora's encoding of the
/// *empty* collection (metadata + count 0) with the count patched and the elements, each
/// written by zipora's own element encoder, appended in sorted order.
fn cx_hash<T: ComplexSerialize + Default>(ctx: &mut Ctx, c: &Case, n: usize, elems: Option<Vec<u8>>) {
    let ser = ComplexTypeSerializer::new(cx_config(c.aux));
    ctx.label(format!("complex_cfg={}", c.aux % 5));
    let valid = enc(|| ser.serialize_to_bytes(&T::default())).and_then(|mut b| {
        let e = elems?;
        let l = b.len();
        if l < 4 || b[l - 4..] != [0, 0, 0, 0] {
            return None;
        }
        b[l - 4..].copy_from_slice(&(n as u32).to_le_bytes());
        b.extend_from_slice(&e);
        Some((b, 0))
    });
    let p = prep(ctx, c, valid);
    set_key(ctx, &p.bytes, None, c.aux % 5);
    let gate = p.bytes.len() >= 4;
    let r = guard(ctx, "parse", p.bytes.len(), None, || ser.deserialize_from_bytes::<T>(&p.bytes).map(|_| ()));
    verdict(ctx, gate, r);
}

fn strs(p: &[u8]) -> Vec<String> {
    p.chunks(5).map(|c| c.iter().map(|b| (b'a' + b % 26) as char).collect()).collect()
}

fn run_complex(ctx: &mut Ctx, c: &Case, kind: &str) {
    let p = c.payload();
    let u = u64s(&p);
    let s = strs(&p);
    let a = u.first().copied().unwrap_or(0);
    match kind {
        "tuple" => cx_one(ctx, c, &(a as u32, s.first().cloned().unwrap_or_default(), u.iter().map(|x| *x as u16).collect::<Vec<u16>>())),
        "array" => cx_one(ctx, c, &[a as u32, (a >> 8) as u32, (a >> 16) as u32, (a >> 32) as u32]),
        "option" => cx_one(ctx, c, &(if a % 3 == 0 { None } else { Some(s.join("-")) })),
        "result" => cx_one::<std::result::Result<u64, String>>(ctx, c, &(if a % 2 == 0 { Ok(a) } else { Err(s.join("+")) })),
        "hashmap" => {
            let m: BTreeMap<u32, String> = u.iter().zip(s.iter()).map(|(k, v)| (*k as u32, v.clone())).collect();
            let elems = enc(|| {
                let mut o = VecDataOutput::new();
                for (k, v) in &m {
                    SerializableType::serialize(k, &mut o)?;
                    SerializableType::serialize(v, &mut o)?;
                }
                Ok(o.into_vec())
            });
            cx_hash::<HashMap<u32, String>>(ctx, c, m.len(), elems)
        }
        "hashset" => {
            let m: BTreeSet<i64> = u.iter().map(|x| *x as i64).collect();
            let elems = enc(|| {
                let mut o = VecDataOutput::new();
                for k in &m {
                    SerializableType::serialize(k, &mut o)?;
                }
                Ok(o.into_vec())
            });
            cx_hash::<HashSet<i64>>(ctx, c, m.len(), elems)
        }
        "btreemap" => cx_one(ctx, c, &s.iter().enumerate().map(|(i, k)| (k.clone(), u.iter().skip(i).take(3).copied().collect::<Vec<u64>>())).collect::<BTreeMap<String, Vec<u64>>>()),
        "btreeset" => cx_one(ctx, c, &u.iter().map(|x| *x as u16).collect::<BTreeSet<u16>>()),
        "nested" => cx_one(ctx, c, &(if a % 4 == 0 { None } else { Some(u.iter().map(|x| if x % 3 == 0 { None } else { Some(*x as u32) }).collect::<Vec<Option<u32>>>()) })),
        _ => {
            // batch of tuples
            let items: Vec<(u32, String)> = u.iter().zip(s.iter()).map(|(k, v)| (*k as u32, v.clone())).collect();
            let ser = ComplexTypeSerializer::new(cx_config(c.aux));
            let valid = enc(|| ser.serialize_batch(&items)).map(|b| (b, items.len()));
            let pr = prep(ctx, c, valid);
            set_key(ctx, &pr.bytes, None, c.aux % 5);
            let gate = pr.bytes.len() >= 4;
            let r = guard(ctx, "parse", pr.bytes.len(), None, || ser.deserialize_batch::<(u32, String)>(&pr.bytes).map(|v| v.len()));
            verdict(ctx, gate, r);
        }
    }
}

fn st_one<T: SerializableType>(ctx: &mut Ctx, c: &Case, v: &T) {
    let valid = enc(|| {
        let mut o = VecDataOutput::new();
        SerializableType::serialize(v, &mut o)?;
        Ok(o.into_vec())
    })
    .map(|b| (b, 0));
    let p = prep(ctx, c, valid);
    set_key(ctx, &p.bytes, None, c.aux);
    let gate = !p.bytes.is_empty();
    let r = guard(ctx, "parse", p.bytes.len(), None, || {
        let mut i = SliceDataInput::new(&p.bytes);
        <T as SerializableType>::deserialize(&mut i).map(|_| ())
    });
    verdict(ctx, gate, r);
}

fn sp_one<T, Pt>(ctx: &mut Ctx, c: &Case, v: &Pt)
where
    T: SerializableType,
    Pt: SmartPtrSerialize<T>,
{
    let cfg = match (c.aux / 8) % 4 {
        0 => SmartPtrConfig::new(),
        1 => SmartPtrConfig::performance_optimized(),
        2 => SmartPtrConfig::space_optimized(),
        _ => SmartPtrConfig::robust(),
    };
    let ser = SmartPtrSerializer::new(cfg);
    let valid = enc(|| ser.serialize_to_bytes::<T, Pt>(v)).map(|b| (b, 0));
    let p = prep(ctx, c, valid);
    set_key(ctx, &p.bytes, None, c.aux);
    let gate = !p.bytes.is_empty();
    let r = guard(ctx, "parse", p.bytes.len(), None, || ser.deserialize_from_bytes::<T, Pt>(&p.bytes).map(|_| ()));
    verdict(ctx, gate, r);
}

fn run_smart_ptr(ctx: &mut Ctx, c: &Case) {
    use std::rc::Rc;
    let p = c.payload();
    let u = u64s(&p);
    let s = strs(&p);
    let a = u.first().copied().unwrap_or(0) as u32;
    let which = c.aux % 8;
    let names = ["box_string", "rc_vec_u64", "arc_string", "option_box", "vec_string", "vec_vec_u64", "box_vec_box", "shared_rc"];
    ctx.label(format!("smart_ptr={}", names[which as usize]));
    match which {
        0 => sp_one::<String, Box<String>>(ctx, c, &Box::new(s.join(" "))),
        1 => sp_one::<Vec<u64>, Rc<Vec<u64>>>(ctx, c, &Rc::new(u.clone())),
        2 => sp_one::<String, Arc<String>>(ctx, c, &Arc::new(s.join(","))),
        3 => sp_one::<u32, Option<Box<u32>>>(ctx, c, &(if a % 3 == 0 { None } else { Some(Box::new(a)) })),
        4 => st_one(ctx, c, &s),
        5 => st_one(ctx, c, &vec![u.clone(), vec![], u.clone()]),
        6 => st_one(ctx, c, &Box::new(vec![Box::new(a), Box::new(a.wrapping_add(1))])),
        _ => {
            // two references to one Rc in a shared context
            use zipora::io::SerializationContext;
            let rc = Rc::new(s.join("/"));
            let valid = enc(|| {
                let mut sc = SerializationContext::new();
                let mut o = VecDataOutput::new();
                rc.serialize_with_context(&mut o, &mut sc)?;
                rc.serialize_with_context(&mut o, &mut sc)?;
                Ok(o.into_vec())
            })
            .map(|b| (b, 0));
            let pr = prep(ctx, c, valid);
            set_key(ctx, &pr.bytes, None, c.aux);
            let gate = !pr.bytes.is_empty();
            let r = guard(ctx, "parse", pr.bytes.len(), None, || {
                let mut i = SliceDataInput::new(&pr.bytes);
                let mut dc: DeserializationContext<Rc<String>> = DeserializationContext::new();
                let x = <Rc<String> as SmartPtrSerialize<String>>::deserialize_with_context(&mut i, &mut dc)?;
                let y = <Rc<String> as SmartPtrSerialize<String>>::deserialize_with_context(&mut i, &mut dc)?;
                Ok::<_, zipora::ZiporaError>(x.len() + y.len())
            });
            verdict(ctx, gate, r);
        }
    }
}

/// A record with one always-present and two versioned fields.
struct Rec {
    id: u64,
    name: String,
    tags: Vec<u32>,
}

impl VersionedSerialize for Rec {
    fn current_version() -> Version {
        Version::new(1, 2, 0)
    }
    fn serialize_with_manager<O: DataOutput>(&self, m: &mut VersionManager, o: &mut O) -> zipora::Result<()> {
        m.register_field("name", Version::new(1, 1, 0));
        m.register_field("tags", Version::new(1, 2, 0));
        SerializableType::serialize(&self.id, o)?;
        m.serialize_field("name", &self.name, o)?;
        m.serialize_field("tags", &self.tags, o)
    }
    fn deserialize_with_manager<I: DataInput>(m: &mut VersionManager, i: &mut I) -> zipora::Result<Self> {
        m.register_field("name", Version::new(1, 1, 0));
        m.register_field("tags", Version::new(1, 2, 0));
        let id = <u64 as SerializableType>::deserialize(i)?;
        let name = m.deserialize_field::<String, _>("name", i)?.unwrap_or_default();
        let tags = m.deserialize_field::<Vec<u32>, _>("tags", i)?.unwrap_or_default();
        Ok(Rec { id, name, tags })
    }
}

fn run_versioned(ctx: &mut Ctx, c: &Case) {
    let p = c.payload();
    let u = u64s(&p);
    let rec = Rec { id: u.first().copied().unwrap_or(0), name: strs(&p).join("."), tags: u.iter().map(|x| *x as u32).collect() };
    let which = c.aux % 7;
    let names = ["serializer_default", "serializer_strict", "serializer_flexible", "serializer_development", "deserialize_versioned", "version_proxy", "manager_proxy"];
    ctx.label(format!("versioned_entry={}", names[which as usize]));
    let vs = VersionedSerializer::new(match which {
        1 => VersionConfig::strict(),
        2 => VersionConfig::flexible(),
        3 => VersionConfig::development(),
        _ => VersionConfig::new(),
    });
    let valid = enc(|| match which {
        0..=3 => vs.serialize_to_bytes(&rec),
        4 => {
            let mut o = VecDataOutput::new();
            SerializableType::serialize(&Rec::current_version(), &mut o)?;
            rec.serialize_versioned(&mut o)?;
            Ok(o.into_vec())
        }
        5 => {
            let mut o = VecDataOutput::new();
            SerializableType::serialize(&VersionProxy::new(rec.name.clone(), Version::new(1, 0, 0)), &mut o)?;
            Ok(o.into_vec())
        }
        _ => {
            let mut o = VecDataOutput::new();
            let m = VersionManager::new(Version::new(1, 2, 0));
            m.serialize_proxy(&VersionProxy::new(rec.tags.clone(), Version::new(1, 0, 0)), &mut o)?;
            Ok(o.into_vec())
        }
    })
    .map(|b| (b, 0));
    let pr = prep(ctx, c, valid);
    set_key(ctx, &pr.bytes, None, which);
    let gate = pr.bytes.len() >= 2;
    let r = guard(ctx, "parse", pr.bytes.len(), None, || match which {
        0..=3 => vs.deserialize_from_bytes::<Rec>(&pr.bytes).map(|r| r.tags.len() + r.name.len() + (r.id as usize & 1)),
        4 => {
            let mut i = SliceDataInput::new(&pr.bytes);
            <Version as SerializableType>::deserialize(&mut i)?;
            Rec::deserialize_versioned(&mut i).map(|r| r.tags.len())
        }
        5 => {
            let mut i = SliceDataInput::new(&pr.bytes);
            <VersionProxy<String> as SerializableType>::deserialize(&mut i).map(|p| p.data().len())
        }
        _ => {
            let mut i = SliceDataInput::new(&pr.bytes);
            let m = VersionManager::new(Version::new(1, 2, 0));
            m.deserialize_proxy::<Vec<u32>, _>(Version::new(1, 0, 0), &mut i).map(|p| p.map(|p| p.data().len()).unwrap_or(0))
        }
    });
    verdict(ctx, gate, r);
}

// ---------------------------------------------------------------------------------------
// hex / Base64
// ---------------------------------------------------------------------------------------

use zipora::string::{hex_decode, hex_decode_bytes, hex_decode_to_slice, hex_encode, hex_encode_upper};
use zipora::system::base64::{Base64Config, SimdImplementation};
use zipora::system::{base64_decode_simd, AdaptiveBase64, SimdBase64Decoder};

fn run_hex(ctx: &mut Ctx, c: &Case) {
    let payload = c.payload();
    let which = c.aux % 3;
    ctx.label(format!("hex_entry={}", ["hex_decode", "hex_decode_bytes", "hex_decode_to_slice"][which as usize]));
    let text = if c.aux & 4 == 0 { hex_encode(&payload) } else { hex_encode_upper(&payload) };
    let p = prep(ctx, c, Some((text.into_bytes(), payload.len())));
    set_key(ctx, &p.bytes, if which == 2 { Some(p.n) } else { None }, which);
    let gate = p.bytes.len() % 2 == 0 && p.bytes.len() >= 2 && p.bytes[0].is_ascii_hexdigit() && p.bytes[1].is_ascii_hexdigit();
    let r = guard(ctx, "parse", p.bytes.len(), None, || match which {
        0 => hex_decode(&lossy(&p.bytes)).map(|v| v.len()),
        1 => hex_decode_bytes(&p.bytes).map(|v| v.len()),
        _ => {
            let mut out = vec![0u8; p.n.min(8192)];
            hex_decode_to_slice(&p.bytes, &mut out)
        }
    });
    verdict(ctx, gate, r);
}

fn run_base64(ctx: &mut Ctx, c: &Case, imp: &str) {
    let payload = c.payload();
    let cfg = Base64Config {
        url_safe: c.aux & 1 == 1,
        padding: c.aux & 2 == 0,
        force_implementation: if c.aux & 4 == 0 { None } else { Some(SimdImplementation::Scalar) },
    };
    let codec = AdaptiveBase64::with_config(cfg.clone());
    let text = match imp {
        "adaptive" => codec.encode(&payload),
        _ => zipora::system::base64_encode_simd(&payload),
    };
    let p = prep(ctx, c, Some((text.into_bytes(), payload.len())));
    set_key(ctx, &p.bytes, None, if imp == "adaptive" { c.aux % 8 } else { c.aux % 2 });
    let s = lossy(&p.bytes);
    let gate = p.bytes.len() >= 4 && p.bytes[..4].iter().all(|b| b.is_ascii_alphanumeric() || matches!(b, b'+' | b'/' | b'-' | b'_'));
    let r = guard(ctx, "parse", p.bytes.len(), None, || match imp {
        "adaptive" => codec.decode(&s).map(|v| v.len()),
        "simd_decoder" => if c.aux % 2 == 0 { SimdBase64Decoder::new() } else { SimdBase64Decoder::with_config(cfg.clone()) }.decode(&s).map(|v| v.len()),
        "free_fn" => base64_decode_simd(&s).map(|v| v.len()),
        _ => {
            if c.aux % 2 == 0 {
                zipora::io::simd_encoding::base64::decode_base64(&s).map(|v| v.len())
            } else {
                let mut out = vec![0u8; p.n.min(8192)];
                zipora::io::simd_encoding::base64::decode_base64_from_buffer(&p.bytes, &mut out)
            }
        }
    });
    verdict(ctx, gate, r);
}

// ---------------------------------------------------------------------------------------
// cell table, plans, dispatch
// ---------------------------------------------------------------------------------------

/// (cell, max seed payload length, quick cases, weight class: 0 = cheap, 1 = expensive)
const CELLS: &[(&str, u16, usize)] = &[
    ("huff_tree_deser", 300, 2400),
    ("huff_decode", 300, 2400),
    ("ctx_huff_deser", 120, 900),
    ("ctx_decode_o0", 200, 900),
    ("ctx_decode_o1", 200, 900),
    ("ctx_decode_o2", 200, 700),
    ("il_decode_x1", 200, 500),
    ("il_decode_x2", 200, 500),
    ("il_decode_x4", 200, 500),
    ("il_decode_x8", 200, 500),
    ("rans_decode_x1", 300, 2000),
    ("rans_decode_x2", 300, 1600),
    ("rans_decode_x4", 300, 1600),
    ("rans_decode_x8", 300, 1600),
    ("fse_decompress", 300, 2400),
    ("fse_decompress_fast", 300, 1200),
    ("fse_decompress_high", 300, 1200),
    ("fse_decompress_realtime", 300, 1200),
    ("fse_decompress_plain", 300, 1200),
    ("fse_unzip", 300, 1200),
    ("dict_deser", 200, 2000),
    ("dict_decompress", 400, 2400),
    ("optdict_decompress", 300, 1200),
    ("compressor_none", 200, 600),
    ("compressor_lz4", 300, 2000),
    ("compressor_zstd", 300, 2000),
    ("compressor_huffman", 300, 2400),
    ("compressor_rans", 300, 2000),
    ("compressor_dictionary", 300, 1600),
    ("compressor_hybrid", 200, 2000),
    ("compressor_simdlz77", 200, 1200),
    ("adaptive_decompress", 300, 1600),
    ("simd_lz77_decompress", 200, 1600),
    ("pazip_decompress", 300, 2400),
    ("pazip_decode_matches", 200, 2400),
    ("pazip_remove_fse", 300, 2000),
    ("sa_dict_deser", 8, 700),
    ("dfa_cache_deser", 120, 900),
    ("zipoffset_load", 200, 2400),
    ("reorder_map_open", 80, 1600),
    ("reorder_map_entries", 80, 1600),
    ("mmap_vec_open", 120, 1600),
    ("varint_decode", 80, 2400),
    ("varint_leb128", 120, 1600),
    ("varint_zigzag", 120, 1600),
    ("varint_delta", 120, 1600),
    ("varint_group", 120, 1600),
    ("varint_prefix_free", 120, 1600),
    ("varint_compact", 120, 1600),
    ("varint_simd", 120, 1600),
    ("simd_varint_batch", 300, 2400),
    ("complex_tuple", 60, 1600),
    ("complex_array", 60, 900),
    ("complex_option", 60, 900),
    ("complex_result", 60, 900),
    ("complex_hashmap", 60, 1600),
    ("complex_hashset", 60, 1200),
    ("complex_btreemap", 60, 1600),
    ("complex_btreeset", 60, 1200),
    ("complex_nested", 60, 1200),
    ("complex_batch", 60, 1600),
    ("smart_ptr_deser", 60, 3000),
    ("versioned_deser", 60, 3000),
    ("data_input_slice", 200, 3000),
    ("data_input_reader", 200, 3000),
    ("hex_decode", 100, 1600),
    ("base64_adaptive", 100, 1600),
    ("base64_simd_decoder", 100, 900),
    ("base64_free_fn", 100, 900),
    ("base64_io", 100, 1200),
];

fn dispatch(ctx: &mut Ctx, cell: &str, c: &Case) {
    match cell {
        "huff_tree_deser" => run_huff_tree_deser(ctx, c),
        "huff_decode" => run_huff_decode(ctx, c),
        "ctx_huff_deser" => run_ctx_huff_deser(ctx, c),
        "ctx_decode_o0" => run_ctx_decode(ctx, c, 0),
        "ctx_decode_o1" => run_ctx_decode(ctx, c, 1),
        "ctx_decode_o2" => run_ctx_decode(ctx, c, 2),
        "il_decode_x1" => run_il_decode(ctx, c, 1),
        "il_decode_x2" => run_il_decode(ctx, c, 2),
        "il_decode_x4" => run_il_decode(ctx, c, 4),
        "il_decode_x8" => run_il_decode(ctx, c, 8),
        "rans_decode_x1" => run_rans::<ParallelX1>(ctx, c),
        "rans_decode_x2" => run_rans::<ParallelX2>(ctx, c),
        "rans_decode_x4" => run_rans::<ParallelX4>(ctx, c),
        "rans_decode_x8" => run_rans::<ParallelX8>(ctx, c),
        "fse_decompress" => run_fse(ctx, c, "default"),
        "fse_decompress_fast" => run_fse(ctx, c, "fast"),
        "fse_decompress_high" => run_fse(ctx, c, "high"),
        "fse_decompress_realtime" => run_fse(ctx, c, "realtime"),
        "fse_decompress_plain" => run_fse(ctx, c, "plain"),
        "fse_unzip" => run_fse(ctx, c, "unzip"),
        "dict_deser" => run_dict_deser(ctx, c),
        "dict_decompress" => run_dict_decompress(ctx, c),
        "optdict_decompress" => run_optdict_decompress(ctx, c),
        "adaptive_decompress" => run_adaptive(ctx, c),
        "simd_lz77_decompress" => run_simd_lz77(ctx, c),
        "pazip_decompress" => run_pazip_decompress(ctx, c),
        "pazip_decode_matches" => run_pazip_decode_matches(ctx, c),
        "pazip_remove_fse" => run_pazip_remove_fse(ctx, c),
        "sa_dict_deser" => run_sa_dict_deser(ctx, c),
        "dfa_cache_deser" => run_dfa_cache_deser(ctx, c),
        "zipoffset_load" => run_zipoffset_load(ctx, c),
        "reorder_map_open" => run_reorder_map_open(ctx, c),
        "reorder_map_entries" => run_reorder_map_entries(ctx, c),
        "mmap_vec_open" => run_mmap_vec_open(ctx, c),
        "varint_decode" => run_varint_decode(ctx, c),
        "simd_varint_batch" => run_simd_varint_batch(ctx, c),
        "smart_ptr_deser" => run_smart_ptr(ctx, c),
        "versioned_deser" => run_versioned(ctx, c),
        "data_input_slice" => run_data_input(ctx, c, false),
        "data_input_reader" => run_data_input(ctx, c, true),
        "hex_decode" => run_hex(ctx, c),
        other => {
            if let Some(name) = other.strip_prefix("compressor_") {
                run_compressor(ctx, c, name)
            } else if let Some(name) = other.strip_prefix("varint_") {
                match STRATS.iter().position(|s| s.0 == name) {
                    Some(si) => run_varint_strategy(ctx, c, si),
                    None => ctx.skip(format!("unknown cell {other}")),
                }
            } else if let Some(kind) = other.strip_prefix("complex_") {
                run_complex(ctx, c, kind)
            } else if let Some(imp) = other.strip_prefix("base64_") {
                run_base64(ctx, c, imp)
            } else {
                ctx.skip(format!("unknown cell {other}"))
            }
        }
    }
}

/// Fixed fault enumeration per cell: every byte of the first 256 / last 24 nudged by +-1; truncation of one fixed valid encoding at every length
/// 0..=255 and at the last 24 positions, every aligned 2/4/8-byte window of the first 96 bytes
/// and of the trailer maximised (0xFF.., 0x7F.., len+1, len-1), and the untouched encoding
/// with every expected-length argument.
fn enumerated_faults() -> Vec<(Vec<Fault>, LenArg)> {
    let mut v: Vec<(Vec<Fault>, LenArg)> = vec![];
    for k in 0..=255u8 {
        v.push((vec![Fault::Trunc(Pos::A(k))], LenArg::True));
    }
    for k in 1..24u8 {
        v.push((vec![Fault::Trunc(Pos::E(k))], LenArg::True));
    }
    for w in [2u8, 4, 8] {
        for at in (0..96u8).step_by(w as usize) {
            for k in 0..4u8 {
                v.push((vec![Fault::Win { at: Pos::A(at), w, k, aligned: false }], LenArg::True));
            }
        }
        for e in [w, 2 * w, 3 * w] {
            for k in 0..2u8 {
                v.push((vec![Fault::Win { at: Pos::E(e), w, k, aligned: false }], LenArg::True));
            }
        }
    }
    // every byte of the first 256 and of the last 24 nudged by +-1 (the low byte of every
    // little-endian index / count / length field: largest valid value -> first invalid one)
    for up in [true, false] {
        for k in 0..=255u8 {
            v.push((vec![Fault::Nudge { at: Pos::A(k), w: 1, up }], LenArg::True));
        }
        for k in 1..=24u8 {
            v.push((vec![Fault::Nudge { at: Pos::E(k), w: 1, up }], LenArg::True));
        }
    }
    for la in [LenArg::True, LenArg::Zero, LenArg::One, LenArg::Plus1, LenArg::Minus1, LenArg::Double, LenArg::Mi1, LenArg::Mi128, LenArg::U32Max, LenArg::UsizeMax] {
        v.push((vec![], la));
        v.push((vec![Fault::Trunc(Pos::R(32768))], la));
    }
    v
}

impl Prop for P {
    fn id(&self) -> &'static str {
        "C15"
    }
    fn level(&self) -> &'static str {
        "fault_enumeration"
    }
    fn rule(&self) -> &'static str {
        "one cell per parser; per cell (a) mutated valid encodings: the matching encoder runs inside the worker on a small generated seed payload, then 0-3 generated faults (truncate, substitute byte, flip bit, overwrite an aligned/unaligned 2/4/8-byte window with 0xFF../0x7F../len+1/len-1/0/0x80.., splice, append garbage, cut, add/subtract one to a 1/2/4/8-byte little-endian field, copy one field over another, a field fault followed by 64-160 KiB of trailing filler) and one of ten expected-length arguments (true, 0, 1, true+-1, 2*true+3, 2^20, 2^27, 2^32-1, usize::MAX); (b) arbitrary bytes <= 4 KiB; (c) for the reorder-map reader a grammar of well-formed entries (single / sequence, lengths 0, 1, small, 127, 128, non-canonical zero, 2^35) with an announced size that is the sum of all entries, of all but the first or last, off by one, zero or far too large; plus a fixed enumeration per cell (every byte of the first 256 and last 24 nudged by +-1, truncation at every length 0..=255 and the last 24 positions, every 2/4/8-byte window of the first 96 bytes and the trailer maximised, every length argument). Non-trivial = the input passes the parser's first magic/length gate (cheap per-cell predicate) or the parser returned Ok or panicked; distinct by hash of (cell, input bytes, length argument, entry point)"
    }
    fn assumptions(&self) -> Vec<String> {
        vec![
            "Ok values of corrupted inputs are not inspected (the statement makes no semantic claim about them)".into(),
            "an encoder that refuses (Err/panic) the seed payload is not a C15 matter: the seed bytes themselves are then mutated and fed to the parser".into(),
            "objects accepted by a deserialiser (Huffman tree, contextual model, dictionary, blob store, MmapVec, reorder map) are used once the way the library's own callers use them (decode / get / bounded iteration); a crash there is reported under aspect `use` of the deserialiser's cell".into(),
            "ZReorderMap is run-length coded, so its element count is legitimately unbounded by the file size: iteration is capped at 5000 elements and never collected".into(),
            "allocation clause: a single allocation request larger than max(64 MiB, 1024 x input length) is reported even when the call returns Err; requests above 1 GiB (or 2 GiB live) abort the worker and are reported by the supervisor as kind `alloc`".into(),
            "hex/Base64 decoders take &str: non-UTF-8 inputs are converted with from_utf8_lossy first (the byte-slice entry points get the raw bytes)".into(),
            "the C FFI (feature `ffi`) is not built and not covered".into(),
        ]
    }
    fn cpu_budget_s(&self) -> u64 {
        20
    }
    fn hang_is_violation(&self) -> bool {
        true
    }
    fn plans(&self, tier: Tier) -> Vec<Plan> {
        let mut v = vec![];
        for &(cell, max, quick) in CELLS {
            let cases = tier.pick(quick, quick * 30);
            let raw_max = tier.pick(4096, 4096);
            let seed_max = tier.pick(max as usize, (max as usize * 4).min(4000)) as u16;
            let s = if cell == "reorder_map_entries" {
                // the raw bytes are a decision tape (see reorder_map_from_tape)
                arbitrary(40)
            } else {
                prop_oneof![3 => mutated(seed_max), 1 => arbitrary(raw_max)].boxed()
            };
            v.push(Plan::new(cell, cases, cases * 15 / 100, s));
        }
        v
    }
    fn enumerated(&self, tier: Tier) -> Vec<Value> {
        let seeds: &[(Content, u16, u64)] = match tier {
            Tier::Quick => &[(Content::Text, 48, 7)],
            Tier::Thorough => &[(Content::Text, 48, 7), (Content::Runs, 200, 11), (Content::KSymbol, 90, 13), (Content::Constant, 17, 3)],
        };
        let faults = enumerated_faults();
        let mut out = vec![];
        for &(cell, _, _) in CELLS {
            for &(content, len, seed) in seeds {
                for (f, la) in &faults {
                    let c = Case { src: Src::Mut { content, len, seed, faults: f.clone() }, len: *la, aux: 0 };
                    out.push(serde_json::json!({"cell": cell, "c": serde_json::to_value(&c).expect("case serialises")}));
                    // the deserialisers of structured models pick the model variant (context
                    // order, configuration preset, open mode) from `aux`: the +-1 sweep runs for
                    // every variant, not only the first
                    // length-prefixed / counted formats: a maximised 2/4/8-byte window in the first
                    // 12 bytes (where the length or count lives) followed by 70 KiB of trailing data,
                    // so that "the input cannot be that long" checks which only look at what has
                    // arrived so far, or at one 64 KiB chunk, are satisfied
                    let counted = cell.starts_with("data_input") || cell.starts_with("complex_") || cell.starts_with("varint_") || matches!(cell, "smart_ptr_deser" | "versioned_deser" | "simd_varint_batch" | "dict_deser" | "huff_tree_deser");
                    if counted && f.is_empty() && *la == LenArg::True {
                        for at in 0..12u8 {
                            for w in [2u8, 4, 8] {
                                for k in [0u8, 1] {
                                    let faults = vec![Fault::Win { at: Pos::A(at), w, k, aligned: false }, Fault::Pad { kib: 70, byte: 0x41 }];
                                    let c = Case { src: Src::Mut { content, len, seed, faults }, len: *la, aux: (at % 4) * 3 };
                                    out.push(serde_json::json!({"cell": cell, "c": serde_json::to_value(&c).expect("case serialises")}));
                                }
                            }
                        }
                    }
                    let structured = cell.contains("deser") || cell.ends_with("_load") || cell.ends_with("_open");
                    if structured && matches!(f.as_slice(), [Fault::Nudge { .. }]) {
                        for aux in 1..=5u8 {
                            let c = Case { src: Src::Mut { content, len, seed, faults: f.clone() }, len: *la, aux };
                            out.push(serde_json::json!({"cell": cell, "c": serde_json::to_value(&c).expect("case serialises")}));
                        }
                    }
                }
            }
        }
        out
    }
    fn run(&self, case: &Value, ctx: &mut Ctx) {
        let c: Case = decode(case);
        let cell = ctx.cell.clone();
        dispatch(ctx, &cell, &c);
    }
}
