//! C03 — blob stores return exactly what was stored, under stable ids.
//!
//! Two families of cells:
//!   * history-driven (mutable stores and wrapper stacks): a generated sequence of
//!     put / put_batch / remove / get / contains / size / len / get_batch / remove_batch / flush /
//!     probe-unknown-id (+ put_with_key / get_by_key / contains_key / get_by_prefix / finalize for
//!     the keyed store, + reopen for the directory-backed store) is interpreted against the store
//!     and against a `BTreeMap<id, Vec<u8>>` reference model, followed by a full scan;
//!   * bulk-built read-only stores: record i must equal input i, len = n, out-of-range ids absent,
//!     mutation attempts refused or reflected consistently, save -> load answers identically.
//!
//! The oracle is the std-collections model; the implementation is never compared with itself
//! (except for the save->load clause, where the statement itself says "answers identically").

use crate::engine::{decode, Ctx, Plan, Prop, Tier};
use crate::gen::{expand, idx, payload, size_around, Bytes, Content, Payload};
use proptest::prelude::*;
use serde::{Deserialize, Serialize};
use serde_json::Value;
use std::collections::{BTreeMap, BTreeSet};
use std::path::PathBuf;
use zipora::blob_store::cached_store::CacheWriteStrategy;
use zipora::blob_store::{
    BatchBlobStore, BatchZipOffsetBlobStoreBuilder, BlobStore, CachedBlobStore, DictZipBlobStore, DictZipBlobStoreBuilder,
    DictZipConfig, DictionaryBlobStore, HuffmanBlobStore, IterableBlobStore, Lz4BlobStore, MemoryBlobStore, MixedLenBlobStore,
    NestLoudsTrieBlobStore, NestLoudsTrieBlobStoreBuilder, PlainBlobStore, RansBlobStore, SimpleZipBlobStore, SimpleZipConfig,
    TrieBlobStoreConfig, ZeroLengthBlobStore, ZipOffsetBlobStore, ZipOffsetBlobStoreBuilder, ZipOffsetBlobStoreConfig, ZstdBlobStore,
};
use zipora::cache::PageCacheConfig;
use zipora::compression::dict_zip::EntropyAlgorithm;
use zipora::{RankSelectInterleaved256, RecordId};

pub struct P;

type ZResult<T> = zipora::Result<T>;
type Trie = NestLoudsTrieBlobStore<RankSelectInterleaved256>;

// ---------------------------------------------------------------------------------------
// case types
// ---------------------------------------------------------------------------------------

#[derive(Clone, Debug, Serialize, Deserialize)]
pub enum Op {
    Put(Payload),
    PutBatch(Vec<Payload>),
    /// index into the ids issued so far (live and removed)
    Remove(u16),
    Get(u16),
    Contains(u16),
    Size(u16),
    Len,
    GetBatch(Vec<u16>),
    RemoveBatch(Vec<u16>),
    Flush,
    /// never-issued id: (kind, random)
    Probe(u8, u32),
    /// drop the store object and open the same directory again (directory-backed store only)
    Reopen,
    /// (re)train the wrapper's model on these bytes in the middle of the history (trainable wrappers only)
    Retrain(Payload),
    /// keyed store only: (key index, data)
    PutKey(u8, Payload),
    GetKey(u8),
    HasKey(u8),
    Prefix(u8),
    Finalize,
}

#[derive(Clone, Debug, Serialize, Deserialize)]
pub struct Filler {
    pub n: usize,
    /// 0 all `fixed`, 1 mostly `fixed` with other lengths mixed in, 2 lengths 0..=fixed, 3 all empty
    pub len_mode: u8,
    pub fixed: usize,
    pub content: Content,
    pub seed: u64,
}

#[derive(Clone, Debug, Serialize, Deserialize)]
pub enum Case {
    Hist {
        /// training samples for trained wrappers / dictionary stores
        train: Vec<Payload>,
        /// cell-specific configuration selector
        cfg: u8,
        ops: Vec<Op>,
    },
    Bulk {
        cfg: u8,
        /// config parameters (simple_zip: min_frag, max_frag-min_frag, delimiter set; mixed_len: fixed_len; batch size)
        p1: u16,
        p2: u16,
        p3: u8,
        explicit: Vec<Payload>,
        filler: Option<Filler>,
        probes: Vec<u32>,
    },
}

// ---------------------------------------------------------------------------------------
// uniform view over the store types (they implement different subsets of the traits)
// ---------------------------------------------------------------------------------------

trait Dyn {
    fn get(&self, id: RecordId) -> ZResult<Vec<u8>>;
    fn put(&mut self, d: &[u8]) -> ZResult<RecordId>;
    fn remove(&mut self, id: RecordId) -> ZResult<()>;
    fn contains(&self, id: RecordId) -> bool;
    fn size(&self, id: RecordId) -> ZResult<Option<usize>>;
    fn len(&self) -> usize;
    fn is_empty(&self) -> bool;
    fn flush(&mut self) -> ZResult<()>;
    fn put_batch(&mut self, _b: Vec<Vec<u8>>) -> Option<ZResult<Vec<RecordId>>> {
        None
    }
    fn get_batch(&self, _ids: Vec<RecordId>) -> Option<ZResult<Vec<Option<Vec<u8>>>>> {
        None
    }
    fn remove_batch(&mut self, _ids: Vec<RecordId>) -> Option<ZResult<usize>> {
        None
    }
    fn iter_ids(&self) -> Option<Vec<RecordId>> {
        None
    }
    /// (id, data) pairs through the store's own blob iterator
    fn iter_blobs(&self) -> Option<Vec<ZResult<(RecordId, Vec<u8>)>>> {
        None
    }
    fn trie(&mut self) -> Option<&mut Trie> {
        None
    }
    fn reopen(&mut self) -> Option<ZResult<()>> {
        None
    }
    /// train / re-train the model; records stored earlier must stay readable
    fn retrain(&mut self, _data: &[u8]) -> Option<ZResult<()>> {
        None
    }
    /// labels describing which internal path the store took (compression engaged, ...)
    fn note(&self, _ctx: &mut Ctx) {}
}

macro_rules! core_methods {
    ($acc:tt) => {
        fn get(&self, id: RecordId) -> ZResult<Vec<u8>> {
            BlobStore::get(&self.$acc, id)
        }
        fn put(&mut self, d: &[u8]) -> ZResult<RecordId> {
            BlobStore::put(&mut self.$acc, d)
        }
        fn remove(&mut self, id: RecordId) -> ZResult<()> {
            BlobStore::remove(&mut self.$acc, id)
        }
        fn contains(&self, id: RecordId) -> bool {
            BlobStore::contains(&self.$acc, id)
        }
        fn size(&self, id: RecordId) -> ZResult<Option<usize>> {
            BlobStore::size(&self.$acc, id)
        }
        fn len(&self) -> usize {
            BlobStore::len(&self.$acc)
        }
        fn is_empty(&self) -> bool {
            BlobStore::is_empty(&self.$acc)
        }
        fn flush(&mut self) -> ZResult<()> {
            BlobStore::flush(&mut self.$acc)
        }
    };
}

macro_rules! batch_iter_methods {
    ($acc:tt) => {
        fn put_batch(&mut self, b: Vec<Vec<u8>>) -> Option<ZResult<Vec<RecordId>>> {
            Some(BatchBlobStore::put_batch(&mut self.$acc, b))
        }
        fn get_batch(&self, ids: Vec<RecordId>) -> Option<ZResult<Vec<Option<Vec<u8>>>>> {
            Some(BatchBlobStore::get_batch(&self.$acc, ids))
        }
        fn remove_batch(&mut self, ids: Vec<RecordId>) -> Option<ZResult<usize>> {
            Some(BatchBlobStore::remove_batch(&mut self.$acc, ids))
        }
        fn iter_ids(&self) -> Option<Vec<RecordId>> {
            Some(IterableBlobStore::iter_ids(&self.$acc).collect())
        }
        fn iter_blobs(&self) -> Option<Vec<ZResult<(RecordId, Vec<u8>)>>> {
            Some(IterableBlobStore::iter_blobs(&self.$acc).collect())
        }
    };
}

/// stores that only implement `BlobStore`
struct Basic<S: BlobStore>(S);
impl<S: BlobStore> Dyn for Basic<S> {
    core_methods!(0);
}

/// trainable entropy wrappers (training may happen at any point of the history)
struct HuffT(HuffmanBlobStore<MemoryBlobStore>);
impl Dyn for HuffT {
    core_methods!(0);
    fn retrain(&mut self, data: &[u8]) -> Option<ZResult<()>> {
        self.0.add_training_data(&data[..data.len().min(4096)]);
        Some(self.0.build_tree())
    }
}
struct RansT(RansBlobStore<MemoryBlobStore>);
impl Dyn for RansT {
    core_methods!(0);
    fn retrain(&mut self, data: &[u8]) -> Option<ZResult<()>> {
        Some(self.0.train(&data[..data.len().min(4096)]))
    }
}
struct DictT(DictionaryBlobStore<MemoryBlobStore>);
impl Dyn for DictT {
    core_methods!(0);
    fn retrain(&mut self, data: &[u8]) -> Option<ZResult<()>> {
        // dictionary construction is quadratic: same 1 KiB bound as the up-front training
        Some(self.0.train(&data[..data.len().min(1024)]))
    }
}

/// stores implementing `BlobStore + BatchBlobStore + IterableBlobStore`
struct Full<S: BlobStore + BatchBlobStore + IterableBlobStore>(S);
impl<S: BlobStore + BatchBlobStore + IterableBlobStore> Dyn for Full<S> {
    core_methods!(0);
    batch_iter_methods!(0);
}

struct Dz(DictZipBlobStore);
impl Dyn for Dz {
    core_methods!(0);
    fn put_batch(&mut self, b: Vec<Vec<u8>>) -> Option<ZResult<Vec<RecordId>>> {
        Some(BatchBlobStore::put_batch(&mut self.0, b))
    }
    fn get_batch(&self, ids: Vec<RecordId>) -> Option<ZResult<Vec<Option<Vec<u8>>>>> {
        Some(BatchBlobStore::get_batch(&self.0, ids))
    }
    fn remove_batch(&mut self, ids: Vec<RecordId>) -> Option<ZResult<usize>> {
        Some(BatchBlobStore::remove_batch(&mut self.0, ids))
    }
    fn iter_ids(&self) -> Option<Vec<RecordId>> {
        Some(self.0.iter_ids_vec())
    }
    fn iter_blobs(&self) -> Option<Vec<ZResult<(RecordId, Vec<u8>)>>> {
        Some(match self.0.iter_blobs_vec() {
            Ok(v) => v.into_iter().map(Ok).collect(),
            Err(e) => vec![Err(e)],
        })
    }
    fn note(&self, ctx: &mut Ctx) {
        if let Ok(st) = self.0.detailed_stats() {
            ctx.label(if st.compressed_blobs > 0 { "dictzip_some_blob_compressed" } else { "dictzip_no_blob_compressed" });
        }
    }
}

struct Nl(Trie);
impl Dyn for Nl {
    core_methods!(0);
    batch_iter_methods!(0);
    fn trie(&mut self) -> Option<&mut Trie> {
        Some(&mut self.0)
    }
}

struct PlainDir {
    store: PlainBlobStore,
    dir: PathBuf,
}
impl Dyn for PlainDir {
    core_methods!(store);
    batch_iter_methods!(store);
    fn reopen(&mut self) -> Option<ZResult<()>> {
        Some(PlainBlobStore::new(&self.dir).map(|s| {
            self.store = s;
        }))
    }
}

// ---------------------------------------------------------------------------------------
// cells
// ---------------------------------------------------------------------------------------

/// (cell name, max record length quick, max record length thorough, weight of cases, uses unsafe/raw memory)
const HIST_CELLS: &[(&str, usize, usize, usize, bool)] = &[
    ("memory", 65536, 65536, 100, false),
    ("plain", 16384, 65536, 50, false),
    ("zstd<memory>", 65536, 65536, 100, false),
    ("lz4<memory>", 65536, 65536, 100, false),
    ("huffman<memory>:untrained", 16384, 65536, 60, false),
    ("huffman<memory>:trained", 8192, 65536, 60, false),
    ("rans<memory>:untrained", 16384, 65536, 40, false),
    ("rans<memory>:trained", 16384, 65536, 40, false),
    ("dictionary<memory>:untrained", 16384, 65536, 40, false),
    ("dictionary<memory>:trained", 16384, 65536, 40, false),
    ("cached<memory>:write_through", 65536, 65536, 70, true),
    ("cached<memory>:write_back", 65536, 65536, 70, true),
    ("cached<memory>:write_around", 65536, 65536, 70, true),
    ("cached<zstd<memory>>", 65536, 65536, 70, true),
    ("zstd<plain>", 16384, 65536, 40, false),
    ("dictzip:default", 4096, 16384, 60, true),
    ("dictzip:text", 4096, 16384, 40, true),
    ("dictzip:binary", 4096, 16384, 40, true),
    ("dictzip:log", 4096, 16384, 40, true),
    ("dictzip:realtime", 4096, 16384, 40, true),
    ("dictzip:huffman_o1", 4096, 16384, 50, true),
    ("dictzip:fse", 4096, 16384, 50, true),
    ("nestlouds:default", 8192, 65536, 80, true),
    ("nestlouds:performance", 8192, 65536, 50, true),
    ("nestlouds:memory", 8192, 65536, 50, true),
    ("nestlouds:security", 8192, 65536, 50, true),
    ("zero_length", 64, 64, 50, false),
];

const BULK_CELLS: &[(&str, usize, bool)] = &[
    ("zipoffset:default", 40, true),
    ("zipoffset:performance", 30, true),
    ("zipoffset:compression", 30, true),
    ("zipoffset:security", 30, true),
    ("zipoffset:custom", 40, true),
    ("zipoffset:batch", 30, true),
    ("simple_zip:default", 80, false),
    ("simple_zip:custom", 100, false),
    ("mixed_len:auto", 100, true),
    ("mixed_len:fixed", 100, true),
    ("nestlouds_builder", 60, true),
    ("zero_length:finish", 30, false),
];

const LONG_KEY: &[u8] = &[b'k'; 300];
const KEYS: &[&[u8]] = &[
    b"a",
    b"ab",
    b"abc",
    b"abd",
    b"b",
    b"user/1",
    b"user/12",
    b"user/2",
    b"user/john/profile",
    b"user/john/settings",
    b"\x00",
    b"\xff\xfe",
    b"",
    b"__blob_1",
    b"__blob_3",
    LONG_KEY,
];
const PREFIXES: &[&[u8]] = &[b"", b"a", b"ab", b"abc", b"user/", b"user/1", b"user/john/", b"zzz", b"\xff", b"__blob_", b"k"];

fn key_class(k: &[u8]) -> &'static str {
    if k.is_empty() {
        "empty_key"
    } else if k.starts_with(b"__blob_") {
        "auto_key"
    } else if k.len() >= 256 {
        "long_key"
    } else {
        "plain_key"
    }
}

fn lc(n: usize) -> &'static str {
    match n {
        0 => "len=0",
        1..=63 => "len<64",
        64..=1023 => "len<1024",
        _ => "len>=1024",
    }
}

// ---------------------------------------------------------------------------------------
// generators
// ---------------------------------------------------------------------------------------

fn rec(max: usize) -> BoxedStrategy<Payload> {
    let big_hi = max.min(8192).max(1025);
    prop_oneof![
        2 => Just(Payload::Raw(Bytes(vec![]))),
        1 => any::<u8>().prop_map(|b| Payload::Raw(Bytes(vec![b]))),
        6 => payload(size_around(&[16, 64, 128, 256], 600.min(max)), 24),
        // equal-length groups
        3 => (proptest::sample::select(vec![Content::Constant, Content::Text, Content::Uniform, Content::KSymbol]),
              proptest::sample::select(vec![8usize, 16, 100]), any::<u64>())
            .prop_map(move |(content, len, seed)| Payload::Gen { content, len: len.min(max), seed }),
        // highly compressible, > 1 KiB (compression really engages)
        4 => (proptest::sample::select(vec![Content::Constant, Content::Periodic, Content::Text, Content::Runs, Content::TwoSymbol, Content::Geometric]),
              1024usize..=big_hi, any::<u64>())
            .prop_map(move |(content, len, seed)| Payload::Gen { content, len: len.min(max), seed }),
        1 => (1024usize..=big_hi, any::<u64>()).prop_map(move |(len, seed)| Payload::Gen { content: Content::Uniform, len: len.min(max), seed }),
        1 => (proptest::sample::select(vec![Content::Constant, Content::Text, Content::Uniform, Content::Runs]), (max / 2)..=max, any::<u64>())
            .prop_map(|(content, len, seed)| Payload::Gen { content, len, seed }),
        // records that are themselves stored forms: a complete zstd frame / lz4 block (what a
        // compressing wrapper keeps in its inner store), a frame plus one byte, the frame magic
        // followed by ordinary bytes.  The inner length leaves room for the framing overhead.
        1 => crate::gen::framed(size_around(&[0, 16, 64, 900], max.saturating_sub(64).min(2000))),
    ]
    .boxed()
}

/// records for the dictionary stores: half of them text that shares its vocabulary with the
/// training samples (so that PA-Zip finds dictionary matches and really compresses)
fn rec_dict(max: usize) -> BoxedStrategy<Payload> {
    prop_oneof![
        1 => rec(max),
        1 => (proptest::sample::select(vec![Content::Text, Content::Text, Content::Periodic, Content::Runs]), size_around(&[64, 128, 256, 1024], max), any::<u64>())
            .prop_map(|(content, len, seed)| Payload::Gen { content, len, seed }),
    ]
    .boxed()
}

fn ops(max_rec: usize, max_ops: usize, keyed: bool, reopen: bool, only_empty: bool, dict: bool) -> BoxedStrategy<Vec<Op>> {
    let r = if dict {
        rec_dict(max_rec)
    } else if only_empty {
        prop_oneof![
            9 => Just(Payload::Raw(Bytes(vec![]))),
            1 => payload((1usize..=max_rec).boxed(), 8),
        ]
        .boxed()
    } else {
        rec(max_rec)
    };
    let rb = if only_empty { Just(Payload::Raw(Bytes(vec![]))).boxed() } else { rec(max_rec.min(2048)) };
    let mut alts: Vec<(u32, BoxedStrategy<Op>)> = vec![
        (10, r.clone().prop_map(Op::Put).boxed()),
        (2, proptest::collection::vec(rb, 0..5).prop_map(Op::PutBatch).boxed()),
        (5, any::<u16>().prop_map(Op::Remove).boxed()),
        (8, any::<u16>().prop_map(Op::Get).boxed()),
        (3, any::<u16>().prop_map(Op::Contains).boxed()),
        (3, any::<u16>().prop_map(Op::Size).boxed()),
        (2, Just(Op::Len).boxed()),
        (2, proptest::collection::vec(any::<u16>(), 0..6).prop_map(Op::GetBatch).boxed()),
        (1, proptest::collection::vec(any::<u16>(), 0..4).prop_map(Op::RemoveBatch).boxed()),
        (1, Just(Op::Flush).boxed()),
        (1, r.clone().prop_map(Op::Retrain).boxed()),
        (2, (0u8..5, any::<u32>()).prop_map(|(k, r)| Op::Probe(k, r)).boxed()),
    ];
    if reopen {
        alts.push((2, Just(Op::Reopen).boxed()));
    }
    if keyed {
        alts.push((8, (0u8..KEYS.len() as u8, r).prop_map(|(k, p)| Op::PutKey(k, p)).boxed()));
        alts.push((5, (0u8..KEYS.len() as u8).prop_map(Op::GetKey).boxed()));
        alts.push((2, (0u8..KEYS.len() as u8).prop_map(Op::HasKey).boxed()));
        alts.push((3, (0u8..PREFIXES.len() as u8).prop_map(Op::Prefix).boxed()));
    }
    let op = proptest::strategy::Union::new_weighted(alts).boxed();
    if keyed {
        // an optional Finalize towards the end of the history
        (proptest::collection::vec(op.clone(), 0..max_ops), proptest::option::weighted(0.25, proptest::collection::vec(op, 0..8)))
            .prop_map(|(mut a, tail)| {
                if let Some(t) = tail {
                    a.push(Op::Finalize);
                    a.extend(t);
                }
                a
            })
            .boxed()
    } else {
        proptest::collection::vec(op, 0..max_ops).boxed()
    }
}

fn train_samples_dict() -> BoxedStrategy<Vec<Payload>> {
    let s = prop_oneof![
        4 => (128usize..=1024, any::<u64>()).prop_map(|(len, seed)| Payload::Gen { content: Content::Text, len, seed }),
        1 => (proptest::sample::select(vec![Content::Periodic, Content::Runs, Content::KSymbol, Content::Uniform, Content::Constant]), 1usize..=512, any::<u64>())
            .prop_map(|(content, len, seed)| Payload::Gen { content, len, seed }),
    ];
    proptest::collection::vec(s, 1..4).boxed()
}

fn train_samples() -> BoxedStrategy<Vec<Payload>> {
    let s = prop_oneof![
        4 => (proptest::sample::select(vec![Content::Text, Content::Geometric, Content::KSymbol, Content::Runs, Content::Periodic, Content::All256]),
              16usize..=1024, any::<u64>()).prop_map(|(content, len, seed)| Payload::Gen { content, len, seed }),
        1 => (proptest::sample::select(vec![Content::Constant, Content::TwoSymbol, Content::Uniform]), 1usize..=512, any::<u64>())
            .prop_map(|(content, len, seed)| Payload::Gen { content, len, seed }),
    ];
    proptest::collection::vec(s, 1..4).boxed()
}

fn filler(max_n: usize) -> BoxedStrategy<Option<Filler>> {
    let f = (
        size_around(&[64, 128, 256, 512, 1024], max_n),
        0u8..4,
        prop_oneof![3 => 0usize..=40, 2 => proptest::sample::select(vec![1usize, 4, 8, 16, 32, 33, 64, 100]), 1 => 100usize..=300],
        proptest::sample::select(vec![Content::Text, Content::Uniform, Content::Constant, Content::KSymbol, Content::Runs, Content::Periodic]),
        any::<u64>(),
    )
        .prop_map(|(n, len_mode, fixed, content, seed)| Filler { n, len_mode, fixed, content, seed });
    proptest::option::weighted(0.85, f).boxed()
}

fn bulk(max_n: usize) -> BoxedStrategy<Case> {
    prop_oneof![
        // the empty store is a boundary of its own (builders return a default object for it)
        1 => (0u8..8, any::<u16>(), any::<u16>(), any::<u8>(), proptest::collection::vec(any::<u32>(), 0..3))
            .prop_map(|(cfg, p1, p2, p3, probes)| Case::Bulk { cfg, p1, p2, p3, explicit: vec![], filler: None, probes }),
        11 => bulk_nonempty(max_n),
    ]
    .boxed()
}

fn bulk_nonempty(max_n: usize) -> BoxedStrategy<Case> {
    (
        0u8..8,
        any::<u16>(),
        any::<u16>(),
        any::<u8>(),
        proptest::collection::vec(rec(4096), 0..6),
        filler(max_n),
        proptest::collection::vec(any::<u32>(), 0..6),
    )
        .prop_map(|(cfg, p1, p2, p3, explicit, filler, probes)| Case::Bulk { cfg, p1, p2, p3, explicit, filler, probes })
        .boxed()
}

fn expand_records(explicit: &[Payload], filler: &Option<Filler>) -> Vec<Vec<u8>> {
    let mut v: Vec<Vec<u8>> = explicit.iter().map(|p| p.bytes()).collect();
    if let Some(f) = filler {
        let mut r = crate::gen::Xs(f.seed | 1);
        // one long deterministic stream, cut into records (cheap, and equal prefixes appear for
        // Text/Periodic so the fragment de-duplication of simple_zip is exercised)
        for i in 0..f.n {
            let len = match f.len_mode {
                0 => f.fixed,
                1 => {
                    if r.below(4) == 0 {
                        r.below(2 * f.fixed as u64 + 3) as usize
                    } else {
                        f.fixed
                    }
                }
                2 => r.below(f.fixed as u64 + 1) as usize,
                _ => 0,
            };
            let seed = if matches!(f.content, Content::Text | Content::Periodic) && i % 3 != 0 { f.seed } else { f.seed.wrapping_add(i as u64).wrapping_mul(0x9E3779B97F4A7C15) };
            v.push(expand(f.content, len, seed));
        }
    }
    v
}

// ---------------------------------------------------------------------------------------
// store construction
// ---------------------------------------------------------------------------------------

fn train_bytes(train: &[Payload], cap: usize) -> Vec<u8> {
    let mut t = vec![];
    for p in train {
        t.extend_from_slice(&p.bytes());
    }
    t.truncate(cap);
    t
}

fn dictzip_store(ctx: &mut Ctx, name: &str, cfg: u8, train: &[Payload]) -> Option<Box<dyn Dyn>> {
    let mut c = match name {
        "dictzip:text" => DictZipConfig::text_compression(),
        "dictzip:binary" => DictZipConfig::binary_compression(),
        "dictzip:log" => DictZipConfig::log_compression(),
        "dictzip:realtime" => DictZipConfig::realtime_compression(),
        _ => DictZipConfig::default(),
    };
    match name {
        "dictzip:huffman_o1" => {
            c.entropy_algorithm = EntropyAlgorithm::HuffmanO1;
            c.entropy_interleaved = [0u8, 1, 2, 4, 8][(cfg % 5) as usize];
            ctx.label(format!("interleave_{}", c.entropy_interleaved));
        }
        "dictzip:fse" => {
            c.entropy_algorithm = EntropyAlgorithm::Fse;
            c.entropy_interleaved = [0u8, 1, 2, 4, 8][(cfg % 5) as usize];
            ctx.label(format!("interleave_{}", c.entropy_interleaved));
        }
        _ => {}
    }
    if cfg & 0x08 != 0 && c.entropy_algorithm != EntropyAlgorithm::None {
        // keep the entropy stage whenever it does not expand (documented range 0.0..=1.0)
        c.entropy_zip_ratio_require = 1.0;
        ctx.label("entropy_ratio_require_1.0");
    }
    if cfg & 0x04 != 0 {
        // two-entry decompression cache: evictions inside one history
        c.cache_size_bytes = 2048;
        ctx.label("tiny_cache");
    }
    if cfg & 0x10 != 0 {
        // smaller threshold so that short records take the compressed path too
        c = c.with_min_compression_size(1 + (cfg as usize >> 5));
        ctx.label("min_compression_size_small");
    }
    let built = ctx.no_panic("build", || -> ZResult<DictZipBlobStore> {
        let mut b = DictZipBlobStoreBuilder::with_config(c)?;
        let mut any = false;
        for p in train {
            let d = p.bytes();
            if !d.is_empty() {
                b.add_training_sample(&d)?;
                any = true;
            }
        }
        if !any {
            b.add_training_sample(b"the quick brown fox jumps over the lazy dog. the quick brown fox.")?;
        }
        b.finish()
    })?;
    match built {
        Ok(s) => Some(Box::new(Dz(s))),
        Err(_) => {
            ctx.label("build_refused");
            None
        }
    }
}

fn trie_config(name: &str) -> TrieBlobStoreConfig {
    match name {
        "nestlouds:performance" => TrieBlobStoreConfig::performance_optimized(),
        "nestlouds:memory" => TrieBlobStoreConfig::memory_optimized(),
        "nestlouds:security" => TrieBlobStoreConfig::security_optimized(),
        _ => TrieBlobStoreConfig::default(),
    }
}

fn cache_cfg(cfg: u8) -> PageCacheConfig {
    match cfg % 4 {
        0 => PageCacheConfig::balanced(),
        1 => PageCacheConfig::memory_optimized(),
        // tiny cache: a couple of pages, so page eviction happens inside one history
        2 => PageCacheConfig::balanced().with_capacity(4 * 4096),
        _ => PageCacheConfig::security_optimized(),
    }
}

/// returns None when the store could not be built (refused / environment); `cleanup` receives the
/// directory to delete afterwards
fn build_hist_store(ctx: &mut Ctx, cfg: u8, train: &[Payload], cleanup: &mut Option<PathBuf>) -> Option<Box<dyn Dyn>> {
    let name = ctx.cell.clone();
    let mk_dir = |ctx: &mut Ctx, cleanup: &mut Option<PathBuf>| -> Option<PathBuf> {
        let dir = ctx.scratch.join("c03_plain");
        let _ = std::fs::remove_dir_all(&dir);
        if let Err(e) = std::fs::create_dir_all(&dir) {
            ctx.skip(format!("cannot create scratch dir: {e}"));
            return None;
        }
        *cleanup = Some(dir.clone());
        Some(dir)
    };
    let s: Box<dyn Dyn> = match name.as_str() {
        "memory" => {
            if cfg & 1 == 1 {
                Box::new(Full(MemoryBlobStore::with_capacity(cfg as usize)))
            } else {
                Box::new(Full(MemoryBlobStore::new()))
            }
        }
        "plain" => {
            let dir = mk_dir(ctx, cleanup)?;
            match PlainBlobStore::create_new(&dir) {
                Ok(store) => Box::new(PlainDir { store, dir }),
                Err(e) => {
                    ctx.skip(format!("cannot create plain store: {e}"));
                    return None;
                }
            }
        }
        "zstd<plain>" => {
            let dir = mk_dir(ctx, cleanup)?;
            match PlainBlobStore::create_new(&dir) {
                Ok(store) => Box::new(Full(ZstdBlobStore::new(store, 1 + (cfg % 9) as i32))),
                Err(e) => {
                    ctx.skip(format!("cannot create plain store: {e}"));
                    return None;
                }
            }
        }
        "zstd<memory>" => {
            let level = [1, 3, 9, 4, 0, -5, 6, 2][(cfg % 8) as usize];
            Box::new(Full(ZstdBlobStore::new(MemoryBlobStore::new(), level)))
        }
        "lz4<memory>" => Box::new(Basic(Lz4BlobStore::new(MemoryBlobStore::new()))),
        "huffman<memory>:untrained" => Box::new(HuffT(HuffmanBlobStore::new(MemoryBlobStore::new()))),
        "huffman<memory>:trained" => {
            let mut h = HuffmanBlobStore::new(MemoryBlobStore::new());
            let t = train_bytes(train, 4096);
            h.add_training_data(&t);
            match ctx.no_panic("train", || h.build_tree())? {
                Ok(()) => ctx.label("trained"),
                Err(_) => ctx.label("training_refused"),
            }
            Box::new(HuffT(h))
        }
        "rans<memory>:untrained" => Box::new(RansT(RansBlobStore::new(MemoryBlobStore::new()))),
        "rans<memory>:trained" => {
            let mut h = RansBlobStore::new(MemoryBlobStore::new());
            let t = train_bytes(train, 4096);
            match ctx.no_panic("train", || h.train(&t))? {
                Ok(()) => ctx.label("trained"),
                Err(_) => ctx.label("training_refused"),
            }
            Box::new(RansT(h))
        }
        "dictionary<memory>:untrained" => Box::new(DictT(DictionaryBlobStore::new(MemoryBlobStore::new()))),
        "dictionary<memory>:trained" => {
            let mut h = DictionaryBlobStore::new(MemoryBlobStore::new());
            let t = train_bytes(train, 1024);
            match ctx.no_panic("train", || h.train(&t))? {
                Ok(()) => ctx.label("trained"),
                Err(_) => ctx.label("training_refused"),
            }
            Box::new(DictT(h))
        }
        "cached<memory>:write_through" | "cached<memory>:write_back" | "cached<memory>:write_around" => {
            let strat = match name.as_str() {
                "cached<memory>:write_through" => CacheWriteStrategy::WriteThrough,
                "cached<memory>:write_back" => CacheWriteStrategy::WriteBack,
                _ => CacheWriteStrategy::WriteAround,
            };
            match ctx.no_panic("build", || CachedBlobStore::with_write_strategy(MemoryBlobStore::new(), cache_cfg(cfg), strat))? {
                Ok(mut s) => {
                    if cfg & 0x40 != 0 {
                        s.disable_cache();
                        ctx.label("cache_disabled");
                    }
                    Box::new(Basic(s))
                }
                Err(_) => {
                    ctx.label("build_refused");
                    return None;
                }
            }
        }
        "cached<zstd<memory>>" => {
            match ctx.no_panic("build", || CachedBlobStore::new(ZstdBlobStore::new(MemoryBlobStore::new(), 3), cache_cfg(cfg)))? {
                Ok(s) => Box::new(Basic(s)),
                Err(_) => {
                    ctx.label("build_refused");
                    return None;
                }
            }
        }
        n if n.starts_with("dictzip:") => return dictzip_store(ctx, n, cfg, train),
        n if n.starts_with("nestlouds:") => match ctx.no_panic("build", || Trie::new(trie_config(n)))? {
            Ok(s) => Box::new(Nl(s)),
            Err(_) => {
                ctx.label("build_refused");
                return None;
            }
        },
        "zero_length" => {
            if cfg % 3 == 0 {
                Box::new(Full(ZeroLengthBlobStore::new()))
            } else {
                // pre-populated through `finish(n)`: ids 0..n are issued up front (handled by the caller)
                Box::new(Full(ZeroLengthBlobStore::finish((cfg % 7) as usize)))
            }
        }
        other => {
            ctx.skip(format!("unknown cell {other}"));
            return None;
        }
    };
    Some(s)
}

// ---------------------------------------------------------------------------------------
// reference model + interpreter
// ---------------------------------------------------------------------------------------

#[derive(Default)]
struct Model {
    live: BTreeMap<RecordId, Vec<u8>>,
    issued: Vec<RecordId>,
    issued_set: BTreeSet<RecordId>,
    /// a batch put failed half-way: the number/identity of live records is no longer known exactly
    extra_unknown: bool,
    // keyed view
    rec_key: BTreeMap<RecordId, Vec<u8>>,
    key_latest: BTreeMap<Vec<u8>, RecordId>,
    /// keys for which the statement does not determine the answer any more
    ambiguous: BTreeSet<Vec<u8>>,
    unkeyed_puts: usize,
    // non-triviality bookkeeping
    removed_live: bool,
    put_after_remove: bool,
    big_record: bool,
    ok_gets: usize,
    puts: usize,
    refused_puts: usize,
    finalized: bool,
}

impl Model {
    fn issue(&mut self, id: RecordId) {
        if self.issued_set.insert(id) {
            self.issued.push(id);
        }
    }
    fn pick(&self, i: u16) -> Option<RecordId> {
        if self.issued.is_empty() {
            None
        } else {
            Some(self.issued[idx(i, self.issued.len())])
        }
    }
    fn state(&self, id: RecordId) -> &'static str {
        if self.live.contains_key(&id) {
            "live"
        } else if self.issued_set.contains(&id) {
            "removed"
        } else {
            "never_issued"
        }
    }
    fn note_put(&mut self, id: RecordId, data: &[u8]) {
        self.live.insert(id, data.to_vec());
        self.issue(id);
        self.puts += 1;
        if data.len() > 1024 {
            self.big_record = true;
        }
        if self.removed_live {
            self.put_after_remove = true;
        }
    }
    fn note_removed(&mut self, id: RecordId) {
        if self.live.remove(&id).is_some() {
            self.removed_live = true;
        }
        if let Some(k) = self.rec_key.remove(&id) {
            // other live records put under the same key?
            let others = self.rec_key.values().any(|x| *x == k);
            if self.key_latest.get(&k) == Some(&id) {
                self.key_latest.remove(&k);
                if others {
                    // the newest record of the key is gone while an older one is still live: the
                    // statement does not say whether the key now resolves to the older record
                    self.ambiguous.insert(k);
                }
            } else if others || self.key_latest.contains_key(&k) {
                // an older record of a key whose newest record is still live was removed
                self.ambiguous.insert(k);
            }
        }
    }
}

/// checks one id against the model through get / contains / size
fn check_id(ctx: &mut Ctx, s: &dyn Dyn, m: &mut Model, id: RecordId, do_get: bool, do_contains: bool, do_size: bool) -> bool {
    let st = m.state(id);
    if do_get {
        let Some(r) = ctx.no_panic("get", || s.get(id)) else { return false };
        match (m.live.get(&id), r) {
            (Some(want), Ok(got)) => {
                if ctx.eq("get", lc(want.len()), &Bytes(got), &Bytes(want.clone())) {
                    m.ok_gets += 1;
                }
            }
            (Some(want), Err(e)) => ctx.fail("get", "err", lc(want.len()), format!("get({id}) of a live record failed: {e}")),
            (None, Ok(got)) => {
                ctx.out.checks += 1;
                ctx.fail("get_absent", "mismatch", st, format!("get({id}) returned {} bytes for a {st} id", got.len()));
            }
            (None, Err(_)) => ctx.out.checks += 1,
        }
    }
    if do_contains {
        let Some(c) = ctx.no_panic("contains", || s.contains(id)) else { return false };
        ctx.eq("contains", st, &c, &m.live.contains_key(&id));
    }
    if do_size {
        let Some(r) = ctx.no_panic("size", || s.size(id)) else { return false };
        match (m.live.get(&id), r) {
            (Some(want), Ok(got)) => {
                ctx.eq("size", lc(want.len()), &got, &Some(want.len()));
            }
            (Some(want), Err(e)) => ctx.fail("size", "err", lc(want.len()), format!("size({id}) of a live record failed: {e}")),
            (None, Ok(Some(n))) => {
                ctx.out.checks += 1;
                ctx.fail("size_absent", "mismatch", st, format!("size({id}) = Some({n}) for a {st} id"));
            }
            (None, _) => ctx.out.checks += 1,
        }
    }
    true
}

fn after_put(ctx: &mut Ctx, m: &mut Model, id: RecordId, data: &[u8], aspect: &str) {
    ctx.out.checks += 1;
    if m.live.contains_key(&id) {
        ctx.fail(aspect, "mismatch", "id_reused_while_live", format!("put returned id {id} which is still live"));
        // resynchronise: the new record now owns the id
        m.rec_key.remove(&id);
    }
    m.note_put(id, data);
}

fn run_hist(ctx: &mut Ctx, cfg: u8, train: &[Payload], ops: &[Op]) {
    let mut cleanup: Option<PathBuf> = None;
    let store = build_hist_store(ctx, cfg, train, &mut cleanup);
    if let Some(mut s) = store {
        let mut m = Model::default();
        if ctx.cell == "zero_length" && cfg % 3 != 0 {
            for i in 0..(cfg % 7) as u32 {
                m.live.insert(i, vec![]);
                m.issue(i);
            }
        }
        interpret(ctx, s.as_mut(), &mut m, ops);
        s.note(ctx);
        let zero = ctx.cell == "zero_length";
        let nontrivial = if zero {
            m.puts >= 3 && m.ok_gets >= 4 && m.refused_puts >= 1
        } else {
            m.put_after_remove && m.big_record && m.ok_gets >= 4
        };
        if nontrivial {
            ctx.nontrivial();
        }
        drop(s);
    }
    if let Some(d) = cleanup {
        let _ = std::fs::remove_dir_all(&d);
    }
}

fn interpret(ctx: &mut Ctx, s: &mut dyn Dyn, m: &mut Model, ops: &[Op]) {
    let keyed_cell = ctx.cell.starts_with("nestlouds");
    for op in ops {
        if ctx.saturated() {
            return;
        }
        match op {
            Op::Put(p) => {
                let d = p.bytes();
                let Some(r) = ctx.no_panic("put", || s.put(&d)) else { return };
                match r {
                    Ok(id) => {
                        after_put(ctx, m, id, &d, "put_id");
                        m.unkeyed_puts += 1;
                        ctx.label(format!("put_{}", lc(d.len())));
                    }
                    Err(_) => {
                        m.refused_puts += 1;
                        ctx.label(format!("put_refused_{}", lc(d.len())));
                    }
                }
            }
            Op::PutBatch(ps) => {
                let ds: Vec<Vec<u8>> = ps.iter().map(|p| p.bytes()).collect();
                let Some(r) = ctx.no_panic("put_batch", || s.put_batch(ds.clone())) else { return };
                match r {
                    None => {}
                    Some(Ok(ids)) => {
                        ctx.label("put_batch");
                        if ctx.eq("put_batch", "id_count", &ids.len(), &ds.len()) {
                            let distinct: BTreeSet<_> = ids.iter().collect();
                            ctx.ensure("put_batch", "ids_distinct", distinct.len() == ids.len(), || format!("put_batch returned duplicate ids {ids:?}"));
                            for (id, d) in ids.iter().zip(&ds) {
                                after_put(ctx, m, *id, d, "put_batch_id");
                                m.unkeyed_puts += 1;
                            }
                        } else {
                            m.extra_unknown = true;
                        }
                    }
                    Some(Err(_)) => {
                        ctx.label("put_batch_refused");
                        if !ds.is_empty() {
                            // earlier elements of the batch may have been stored
                            m.extra_unknown = true;
                        }
                    }
                }
            }
            Op::Remove(i) => {
                let Some(id) = m.pick(*i) else { continue };
                let was_live = m.live.contains_key(&id);
                let Some(r) = ctx.no_panic("remove", || s.remove(id)) else { return };
                ctx.out.checks += 1;
                match (was_live, r) {
                    (true, Ok(())) => {
                        m.note_removed(id);
                        ctx.label("remove_live");
                    }
                    (true, Err(_)) => ctx.label("remove_refused"),
                    (false, Ok(())) => ctx.fail("remove_absent", "mismatch", "removed", format!("remove({id}) of an already removed id returned Ok")),
                    (false, Err(_)) => ctx.label("remove_absent_err"),
                }
            }
            Op::Get(i) => {
                let Some(id) = m.pick(*i) else { continue };
                if !check_id(ctx, s, m, id, true, false, false) {
                    return;
                }
            }
            Op::Contains(i) => {
                let Some(id) = m.pick(*i) else { continue };
                if !check_id(ctx, s, m, id, false, true, false) {
                    return;
                }
            }
            Op::Size(i) => {
                let Some(id) = m.pick(*i) else { continue };
                if !check_id(ctx, s, m, id, false, false, true) {
                    return;
                }
            }
            Op::Len => {
                if !check_len(ctx, s, m) {
                    return;
                }
            }
            Op::GetBatch(is) => {
                let ids: Vec<RecordId> = is.iter().filter_map(|i| m.pick(*i)).collect();
                if !check_get_batch(ctx, s, m, ids) {
                    return;
                }
            }
            Op::RemoveBatch(is) => {
                let set: BTreeSet<RecordId> = is.iter().filter_map(|i| m.pick(*i)).collect();
                let ids: Vec<RecordId> = set.into_iter().collect();
                let want = ids.iter().filter(|id| m.live.contains_key(id)).count();
                let Some(r) = ctx.no_panic("remove_batch", || s.remove_batch(ids.clone())) else { return };
                match r {
                    None => {}
                    Some(Ok(n)) => {
                        ctx.label("remove_batch");
                        // "number of blobs actually removed": a single remove may be refused (Err), so the
                        // count is compared with the live ids that are gone afterwards; the model then
                        // follows, and every later get/contains/size/len keeps both sides honest
                        let mut gone = vec![];
                        for id in &ids {
                            if m.live.contains_key(id) {
                                match ctx.no_panic("contains", || s.contains(*id)) {
                                    Some(false) => gone.push(*id),
                                    Some(true) => {}
                                    None => return,
                                }
                            }
                        }
                        if gone.len() < want {
                            ctx.label("remove_batch_partially_refused");
                        }
                        ctx.eq("remove_batch", "count", &n, &gone.len());
                        for id in gone {
                            m.note_removed(id);
                        }
                    }
                    Some(Err(_)) => {
                        ctx.label("remove_batch_refused");
                        // a refusal must leave every record in place or really remove it; resync
                        for id in &ids {
                            if m.live.contains_key(id) {
                                if let Some(false) = ctx.no_panic("contains", || s.contains(*id)) {
                                    m.note_removed(*id);
                                }
                            }
                        }
                    }
                }
            }
            Op::Flush => {
                let Some(r) = ctx.no_panic("flush", || s.flush()) else { return };
                if r.is_err() {
                    ctx.label("flush_err");
                }
            }
            Op::Probe(kind, r) => {
                let max = m.issued.iter().copied().max();
                let id: RecordId = match kind {
                    0 => 0,
                    1 => max.map(|x| x.wrapping_add(1)).unwrap_or(1),
                    2 => u32::MAX,
                    3 => *r,
                    _ => max.unwrap_or(0).wrapping_add(1 + r % 1000),
                };
                if m.issued_set.contains(&id) || m.extra_unknown {
                    continue;
                }
                ctx.label("probe_never_issued");
                if !check_id(ctx, s, m, id, true, true, true) {
                    return;
                }
                if r % 3 == 0 {
                    let Some(rr) = ctx.no_panic("remove", || s.remove(id)) else { return };
                    ctx.out.checks += 1;
                    if rr.is_ok() {
                        ctx.fail("remove_absent", "mismatch", "never_issued", format!("remove({id}) of a never-issued id returned Ok"));
                    }
                }
                if r % 3 == 1 && !check_get_batch(ctx, s, m, vec![id]) {
                    return;
                }
            }
            Op::Reopen => {
                let Some(r) = ctx.no_panic("reopen", || s.reopen()) else { return };
                match r {
                    None => {}
                    Some(Ok(())) => {
                        ctx.label("reopen");
                        if !full_scan(ctx, s, m, "after_reopen") {
                            return;
                        }
                    }
                    Some(Err(e)) => {
                        ctx.fail("reopen", "err", "", format!("re-opening the directory failed: {e}"));
                        return;
                    }
                }
            }
            Op::Retrain(p) => {
                let d = p.bytes();
                let Some(r) = ctx.no_panic("retrain", || s.retrain(&d)) else { return };
                match r {
                    None => {}
                    Some(Ok(())) => {
                        ctx.label("retrained_mid_history");
                        if !m.live.is_empty() {
                            ctx.label("retrained_with_live_records");
                        }
                        if !full_scan(ctx, s, m, "after_retrain") {
                            return;
                        }
                    }
                    Some(Err(_)) => ctx.label("retrain_refused"),
                }
            }
            Op::PutKey(k, p) => {
                if !keyed_cell {
                    continue;
                }
                let key = KEYS[*k as usize % KEYS.len()];
                let d = p.bytes();
                let Some(r) = ctx.no_panic("put_with_key", || s.trie().map(|t| t.put_with_key(key, &d))) else { return };
                match r {
                    None => {}
                    Some(Ok(id)) => {
                        after_put(ctx, m, id, &d, "put_id");
                        ctx.label(format!("put_with_key_{}", key_class(key)));
                        if m.key_latest.contains_key(key) {
                            ctx.label("put_with_key_overwrite");
                        }
                        m.rec_key.insert(id, key.to_vec());
                        m.key_latest.insert(key.to_vec(), id);
                        m.ambiguous.remove(key);
                    }
                    Some(Err(_)) => {
                        m.refused_puts += 1;
                        ctx.label("put_with_key_refused");
                    }
                }
            }
            Op::GetKey(k) => {
                if !keyed_cell {
                    continue;
                }
                let key = KEYS[*k as usize % KEYS.len()];
                if m.ambiguous.contains(key) {
                    ctx.label("key_ambiguous_skipped");
                    continue;
                }
                let Some(r) = ctx.no_panic("get_by_key", || s.trie().map(|t| t.get_by_key(key))) else { return };
                let Some(r) = r else { continue };
                let want = m.key_latest.get(key).and_then(|id| m.live.get(id));
                if want.is_none() && key.starts_with(b"__blob_") && m.unkeyed_puts > 0 {
                    // the store invents "__blob_N" keys for unkeyed puts; whether such a key is visible
                    // through the key API is not something the statement decides
                    ctx.label("auto_key_unasserted");
                    continue;
                }
                let cls = format!("{}{}", key_class(key), if m.removed_live { ",after_remove" } else { "" });
                match (want, r) {
                    (Some(w), Ok(g)) => {
                        ctx.eq("get_by_key", &cls, &Bytes(g), &Bytes(w.clone()));
                    }
                    (Some(_), Err(e)) => ctx.fail("get_by_key", "err", &cls, format!("key {:?} was put and not removed: {e}", Bytes(key.to_vec()))),
                    (None, Ok(g)) => {
                        ctx.out.checks += 1;
                        ctx.fail("get_by_key_absent", "mismatch", &cls, format!("key {:?} has no live record but get_by_key returned {} bytes", Bytes(key.to_vec()), g.len()));
                    }
                    (None, Err(_)) => ctx.out.checks += 1,
                }
            }
            Op::HasKey(k) => {
                if !keyed_cell {
                    continue;
                }
                let key = KEYS[*k as usize % KEYS.len()];
                if m.ambiguous.contains(key) {
                    continue;
                }
                let Some(r) = ctx.no_panic("contains_key", || s.trie().map(|t| t.contains_key(key))) else { return };
                let Some(r) = r else { continue };
                let want = m.key_latest.get(key).map(|id| m.live.contains_key(id)).unwrap_or(false);
                if !want && key.starts_with(b"__blob_") && m.unkeyed_puts > 0 {
                    ctx.label("auto_key_unasserted");
                    continue;
                }
                let cls = format!("{}{}", key_class(key), if m.removed_live { ",after_remove" } else { "" });
                ctx.eq("contains_key", &cls, &r, &want);
            }
            Op::Prefix(pi) => {
                if !keyed_cell {
                    continue;
                }
                let prefix = PREFIXES[*pi as usize % PREFIXES.len()];
                let Some(r) = ctx.no_panic("get_by_prefix", || s.trie().map(|t| t.get_by_prefix(prefix))) else { return };
                let Some(r) = r else { continue };
                let cls = if m.removed_live { "after_remove" } else { "" };
                match r {
                    Err(e) => ctx.fail("get_by_prefix", "err", cls, format!("{e}")),
                    Ok(pairs) => {
                        // compare on the keys the history put explicitly and whose answer is determined;
                        // keys the store invents for unkeyed puts ("__blob_N") are tolerated as extras
                        let is_user = |k: &[u8]| KEYS.iter().any(|u| *u == k);
                        let mut got: Vec<(Bytes, Bytes)> = vec![];
                        let mut invented = 0usize;
                        for (k, v) in pairs {
                            if m.ambiguous.contains(&k) {
                                continue;
                            }
                            if is_user(&k) && !(k.starts_with(b"__blob_") && !m.key_latest.contains_key(&k)) {
                                got.push((Bytes(k), Bytes(v)));
                            } else if k.starts_with(b"__blob_") {
                                invented += 1;
                            } else {
                                got.push((Bytes(k), Bytes(v)));
                            }
                        }
                        let mut want: Vec<(Bytes, Bytes)> = vec![];
                        for (k, id) in &m.key_latest {
                            if k.starts_with(prefix) && !m.ambiguous.contains(k) {
                                if let Some(d) = m.live.get(id) {
                                    want.push((Bytes(k.clone()), Bytes(d.clone())));
                                }
                            }
                        }
                        got.sort();
                        want.sort();
                        ctx.label(format!("prefix_hits_{}", match want.len() { 0 => "0", 1 => "1", _ => "2+" }));
                        // pairs under user keys that look like the store's invented keys are compared
                        // separately so that the namespace collision has its own input class
                        let split = |v: Vec<(Bytes, Bytes)>| -> (Vec<(Bytes, Bytes)>, Vec<(Bytes, Bytes)>) { v.into_iter().partition(|(k, _)| k.0.starts_with(b"__blob_")) };
                        let (got_auto, got) = split(got);
                        let (want_auto, want) = split(want);
                        ctx.eq("get_by_prefix", cls, &got, &want);
                        let acls = if m.removed_live { "auto_key,after_remove" } else { "auto_key" };
                        ctx.eq("get_by_prefix", acls, &got_auto, &want_auto);
                        ctx.ensure("get_by_prefix", "invented_keys", invented <= m.unkeyed_puts, || format!("{invented} auto keys returned but only {} unkeyed puts happened", m.unkeyed_puts));
                    }
                }
            }
            Op::Finalize => {
                if !keyed_cell {
                    continue;
                }
                let Some(r) = ctx.no_panic("finalize", || s.trie().map(|t| t.finalize())) else { return };
                match r {
                    Some(Ok(())) => {
                        m.finalized = true;
                        ctx.label("finalized");
                        if !full_scan(ctx, s, m, "after_finalize") {
                            return;
                        }
                    }
                    Some(Err(_)) => ctx.label("finalize_refused"),
                    None => {}
                }
            }
        }
    }
    full_scan(ctx, s, m, "final");
}

fn check_len(ctx: &mut Ctx, s: &dyn Dyn, m: &mut Model) -> bool {
    if m.extra_unknown {
        return true;
    }
    let Some(n) = ctx.no_panic("len", || s.len()) else { return false };
    let cls = if m.removed_live { "after_remove" } else { "" };
    ctx.eq("len", cls, &n, &m.live.len());
    let Some(e) = ctx.no_panic("len", || s.is_empty()) else { return false };
    ctx.eq("is_empty", cls, &e, &m.live.is_empty());
    true
}

fn check_get_batch(ctx: &mut Ctx, s: &dyn Dyn, m: &mut Model, ids: Vec<RecordId>) -> bool {
    let Some(r) = ctx.no_panic("get_batch", || s.get_batch(ids.clone())) else { return false };
    let Some(r) = r else { return true };
    let want: Vec<Option<Bytes>> = ids.iter().map(|id| m.live.get(id).map(|d| Bytes(d.clone()))).collect();
    let all_live = want.iter().all(|w| w.is_some());
    let cls = if all_live { "all_live" } else { "with_absent" };
    match r {
        Ok(got) => {
            ctx.label("get_batch");
            let got: Vec<Option<Bytes>> = got.into_iter().map(|o| o.map(Bytes)).collect();
            ctx.eq("get_batch", cls, &got, &want);
        }
        Err(e) => {
            if all_live {
                ctx.fail("get_batch", "err", cls, format!("get_batch over live ids failed: {e}"));
            } else {
                // the trait documents `None` per missing id, but "Err if the batch operation fails"
                // leaves room for refusing a batch that names absent ids
                ctx.label("get_batch_err_with_absent_ids");
            }
        }
    }
    true
}

/// every issued id through get/contains/size, len, iter_ids both directions, get_batch, blob iterator
fn full_scan(ctx: &mut Ctx, s: &dyn Dyn, m: &mut Model, _phase: &str) -> bool {
    let ids: Vec<RecordId> = m.issued.clone();
    // bound the work for very long histories
    let step = (ids.len() / 64).max(1);
    for (k, id) in ids.iter().enumerate() {
        if ctx.saturated() {
            return false;
        }
        if k % step == 0 && !check_id(ctx, s, m, *id, true, true, true) {
            return false;
        }
    }
    if !check_len(ctx, s, m) {
        return false;
    }
    if !m.extra_unknown {
        let Some(it) = ctx.no_panic("iter_ids", || s.iter_ids()) else { return false };
        if let Some(v) = it {
            let n = v.len();
            let got: BTreeSet<RecordId> = v.into_iter().collect();
            let want: BTreeSet<RecordId> = m.live.keys().copied().collect();
            let cls = if m.removed_live { "after_remove" } else { "" };
            ctx.ensure("iter_ids", "duplicates", n == got.len(), || format!("iter_ids yielded {n} ids, {} distinct", got.len()));
            let missing: Vec<_> = want.difference(&got).take(5).collect();
            let extra: Vec<_> = got.difference(&want).take(5).collect();
            ctx.ensure("iter_ids", cls, missing.is_empty() && extra.is_empty(), || format!("live ids missing from iter_ids: {missing:?}; ids yielded that are not live: {extra:?}"));
        }
        let Some(it) = ctx.no_panic("iter_blobs", || s.iter_blobs()) else { return false };
        if let Some(v) = it {
            let mut got: BTreeMap<RecordId, Bytes> = BTreeMap::new();
            let mut errs = 0usize;
            for r in v {
                match r {
                    Ok((id, d)) => {
                        got.insert(id, Bytes(d));
                    }
                    Err(_) => errs += 1,
                }
            }
            if errs > 0 {
                ctx.fail("iter_blobs", "err", "", format!("{errs} items of the blob iterator were errors"));
            } else {
                let want: BTreeMap<RecordId, Bytes> = m.live.iter().map(|(k, v)| (*k, Bytes(v.clone()))).collect();
                ctx.eq("iter_blobs", "", &got, &want);
            }
        }
    }
    if ids.len() <= 64 && !check_get_batch(ctx, s, m, ids) {
        return false;
    }
    true
}

// ---------------------------------------------------------------------------------------
// bulk-built stores
// ---------------------------------------------------------------------------------------

fn zip_cfg(name: &str, p1: u16, p2: u16) -> ZipOffsetBlobStoreConfig {
    match name {
        "zipoffset:performance" => ZipOffsetBlobStoreConfig::performance_optimized(),
        "zipoffset:compression" => ZipOffsetBlobStoreConfig::compression_optimized(),
        "zipoffset:security" => ZipOffsetBlobStoreConfig::security_optimized(),
        "zipoffset:custom" => {
            let mut c = ZipOffsetBlobStoreConfig::default();
            c.compress_level = [0u8, 0, 1, 3][(p1 % 4) as usize];
            c.checksum_level = (p2 % 4) as u8;
            c.enable_simd = p1 & 4 != 0;
            c
        }
        _ => ZipOffsetBlobStoreConfig::default(),
    }
}

/// Checks of a read-only store built from `recs` (record i must be input i).
fn check_bulk(ctx: &mut Ctx, s: &mut dyn Dyn, recs: &[Vec<u8>], probes: &[u32], tag: &'static str) {
    let n = recs.len();
    let Some(len) = ctx.no_panic("len", || s.len()) else { return };
    // classifier: a store that came out of the builder empty although records were added
    let built_empty = len == 0 && n > 0;
    let c = |base: &str| -> String {
        if built_empty {
            "built_empty".to_string()
        } else if tag.is_empty() {
            base.to_string()
        } else if base.is_empty() {
            tag.to_string()
        } else {
            format!("{tag},{base}")
        }
    };
    ctx.eq("len", &c(""), &len, &n);
    if let Some(e) = ctx.no_panic("len", || s.is_empty()) {
        ctx.eq("is_empty", &c(""), &e, &(n == 0));
    }
    let step = if built_empty { (n / 4).max(1) } else { 1 };
    let mut i = 0;
    while i < n {
        if ctx.saturated() {
            return;
        }
        let id = i as RecordId;
        let want = &recs[i];
        let blk = if i >= 128 { ",idx>=128" } else { "" };
        let cls = c(&format!("{}{}", lc(want.len()), blk));
        match ctx.no_panic("get", || s.get(id)) {
            Some(Ok(got)) => {
                ctx.eq("get", &cls, &Bytes(got), &Bytes(want.clone()));
            }
            Some(Err(e)) => ctx.fail("get", "err", &cls, format!("get({id}) of {n} records failed: {e}")),
            None => return,
        }
        match ctx.no_panic("size", || s.size(id)) {
            Some(Ok(got)) => {
                ctx.eq("size", &cls, &got, &Some(want.len()));
            }
            Some(Err(e)) => ctx.fail("size", "err", &cls, format!("size({id}) failed: {e}")),
            None => return,
        }
        match ctx.no_panic("contains", || s.contains(id)) {
            Some(b) => {
                ctx.eq("contains", &c("live"), &b, &true);
            }
            None => return,
        }
        i += step;
    }
    // out-of-range ids are absent
    let mut oor: Vec<RecordId> = vec![n as RecordId, n as RecordId + 1, u32::MAX];
    for p in probes {
        if (*p as usize) >= n {
            oor.push(*p);
        }
    }
    for id in oor {
        match ctx.no_panic("get_absent", || s.get(id)) {
            Some(Ok(d)) => {
                ctx.out.checks += 1;
                ctx.fail("get_absent", "mismatch", &c("never_issued"), format!("get({id}) with {n} records returned {} bytes", d.len()));
            }
            Some(Err(_)) => ctx.out.checks += 1,
            None => return,
        }
        match ctx.no_panic("contains", || s.contains(id)) {
            Some(b) => {
                ctx.eq("contains", &c("never_issued"), &b, &false);
            }
            None => return,
        }
        match ctx.no_panic("size_absent", || s.size(id)) {
            Some(Ok(Some(x))) => {
                ctx.out.checks += 1;
                ctx.fail("size_absent", "mismatch", &c("never_issued"), format!("size({id}) = Some({x}) with {n} records"));
            }
            Some(_) => ctx.out.checks += 1,
            None => return,
        }
    }
    if built_empty {
        return;
    }
    // iter_ids = 0..n, both directions
    if let Some(Some(v)) = ctx.no_panic("iter_ids", || s.iter_ids()) {
        let want: Vec<RecordId> = (0..n as RecordId).collect();
        let mut got = v;
        got.sort_unstable();
        ctx.eq("iter_ids", &c(""), &got, &want);
    }
    // get_batch over a sample including out-of-range ids
    let mut ids: Vec<RecordId> = probes.iter().map(|p| if n > 0 && p % 4 != 0 { (*p as usize % n) as RecordId } else { (n as u32).saturating_add(*p % 7) }).collect();
    if n > 0 {
        ids.push(0);
        ids.push(n as RecordId - 1);
    }
    if let Some(Some(r)) = ctx.no_panic("get_batch", || s.get_batch(ids.clone())) {
        let want: Vec<Option<Bytes>> = ids.iter().map(|id| recs.get(*id as usize).map(|d| Bytes(d.clone()))).collect();
        let all_live = want.iter().all(|w| w.is_some());
        match r {
            Ok(got) => {
                let got: Vec<Option<Bytes>> = got.into_iter().map(|o| o.map(Bytes)).collect();
                ctx.eq("get_batch", &c(if all_live { "all_live" } else { "with_absent" }), &got, &want);
            }
            Err(e) => {
                if all_live {
                    ctx.fail("get_batch", "err", &c("all_live"), format!("{e}"));
                } else {
                    ctx.label("get_batch_err_with_absent_ids");
                }
            }
        }
    }
    // mutation attempts: refused, or reflected consistently
    if tag.is_empty() {
        if let Some(r) = ctx.no_panic("put", || s.put(b"c03 extra record")) {
            match r {
                Err(_) => {
                    ctx.label("put_refused_read_only");
                    if let Some(l) = ctx.no_panic("len", || s.len()) {
                        ctx.eq("len", "after_refused_put", &l, &n);
                    }
                }
                Ok(id) => {
                    ctx.label("put_accepted_on_bulk_store");
                    ctx.ensure("put_id", "id_reused_while_live", (id as usize) >= n, || format!("put on a store with {n} records returned live id {id}"));
                    if let Some(Ok(d)) = ctx.no_panic("get", || s.get(id)) {
                        ctx.eq("get", "after_put_on_bulk", &Bytes(d), &Bytes(b"c03 extra record".to_vec()));
                    } else {
                        ctx.fail("get", "err", "after_put_on_bulk", "record accepted by put cannot be read back");
                    }
                    return;
                }
            }
        }
        if n > 0 {
            let victim = (probes.first().copied().unwrap_or(0) as usize % n) as RecordId;
            if let Some(r) = ctx.no_panic("remove", || s.remove(victim)) {
                match r {
                    Err(_) => {
                        ctx.label("remove_refused_read_only");
                        if let Some(Ok(d)) = ctx.no_panic("get", || s.get(victim)) {
                            ctx.eq("get", "after_refused_remove", &Bytes(d), &Bytes(recs[victim as usize].clone()));
                        } else {
                            ctx.fail("get", "err", "after_refused_remove", format!("record {victim} unreadable after a refused remove"));
                        }
                    }
                    Ok(()) => {
                        ctx.label("remove_accepted_on_bulk_store");
                        if let Some(b) = ctx.no_panic("contains", || s.contains(victim)) {
                            ctx.eq("contains", "after_remove_on_bulk", &b, &false);
                        }
                        if let Some(r) = ctx.no_panic("get_absent", || s.get(victim)) {
                            ctx.ensure("get_absent", "after_remove_on_bulk", r.is_err(), || format!("get({victim}) still succeeds after remove returned Ok"));
                        }
                    }
                }
            }
        }
    }
}

fn run_bulk(ctx: &mut Ctx, cfg: u8, p1: u16, p2: u16, p3: u8, explicit: &[Payload], filler: &Option<Filler>, probes: &[u32]) {
    let name = ctx.cell.clone();
    let mut recs = expand_records(explicit, filler);
    if recs.len() >= 130 {
        ctx.nontrivial();
    }
    ctx.label(format!("n_{}", match recs.len() { 0 => "0", 1..=63 => "1-63", 64..=129 => "64-129", 130..=511 => "130-511", _ => "512+" }));
    let total: usize = recs.iter().map(|r| r.len()).sum();
    ctx.label(if total >= 65536 { "total>=64KiB" } else { "total<64KiB" });
    if let Some(f) = filler {
        ctx.label(format!("len_mode_{}", f.len_mode));
    }
    match name.as_str() {
        n if n.starts_with("zipoffset:") => {
            // per-record zstd (level up to 9) makes 2000-record builds the most expensive bulk case;
            // 600 records still span several 64/128-record offset blocks
            if ctx.tier == Tier::Quick && recs.len() > 600 {
                recs.truncate(600);
            }
            let batch = n == "zipoffset:batch";
            let zc = zip_cfg(n, p1, p2);
            ctx.label(format!("compress_{}_checksum_{}", if zc.compress_level > 0 { "on" } else { "off" }, zc.checksum_level));
            let built = ctx.no_panic("build", || -> ZResult<(ZipOffsetBlobStore, Vec<RecordId>)> {
                let mut ids = vec![];
                if batch {
                    let bs = 1 + (p1 % 9) as usize;
                    let mut b = BatchZipOffsetBlobStoreBuilder::with_config(zc.clone(), bs)?;
                    for r in &recs {
                        b.add_record(r)?;
                    }
                    Ok((b.finish()?, ids))
                } else {
                    let mut b = ZipOffsetBlobStoreBuilder::with_config(zc.clone())?;
                    if cfg & 1 == 0 {
                        for r in &recs {
                            ids.push(b.add_record(r)?);
                        }
                    } else {
                        ids = b.add_records(recs.iter())?;
                    }
                    Ok((b.finish()?, ids))
                }
            });
            let Some(built) = built else { return };
            let (store, ids) = match built {
                Ok(x) => x,
                Err(_) => {
                    ctx.label("build_refused");
                    return;
                }
            };
            if !batch {
                let want: Vec<RecordId> = (0..recs.len() as RecordId).collect();
                ctx.eq("builder_ids", "", &ids, &want);
            }
            let mut w = Basic(store);
            check_bulk(ctx, &mut w, &recs, probes, "");
            // save -> load: the loaded store answers identically to the original
            let orig = w.0;
            let mut buf: Vec<u8> = vec![];
            let via_file = cfg & 2 != 0;
            let path = ctx.scratch.join("c03_zipoffset.bin");
            let saved = if via_file {
                let _ = std::fs::create_dir_all(&ctx.scratch);
                ctx.no_panic("save", || orig.save_to_file(&path))
            } else {
                ctx.no_panic("save", || orig.save_to_writer(&mut buf))
            };
            match saved {
                Some(Ok(())) => {
                    let loaded = if via_file {
                        ctx.no_panic("load", || ZipOffsetBlobStore::load_from_file(&path))
                    } else {
                        ctx.no_panic("load", || ZipOffsetBlobStore::load_from_reader(&mut &buf[..]))
                    };
                    match loaded {
                        Some(Ok(l)) => {
                            ctx.label("save_load");
                            let cls = if BlobStore::len(&orig) == 0 { "empty_store" } else { "" };
                            ctx.eq("save_load_len", cls, &BlobStore::len(&l), &BlobStore::len(&orig));
                            let m = BlobStore::len(&orig).min(400);
                            for i in 0..m as RecordId {
                                let a = BlobStore::get(&orig, i).ok().map(Bytes);
                                let b = ctx.no_panic("save_load_get", || BlobStore::get(&l, i).ok().map(Bytes));
                                let Some(b) = b else { break };
                                if !ctx.eq("save_load_get", cls, &b, &a) {
                                    break;
                                }
                                ctx.eq("save_load_size", cls, &BlobStore::size(&l, i).ok(), &BlobStore::size(&orig, i).ok());
                            }
                            ctx.eq("save_load_contains", cls, &BlobStore::contains(&l, m as RecordId), &BlobStore::contains(&orig, m as RecordId));
                        }
                        Some(Err(e)) => ctx.fail("save_load", "err", "", format!("a freshly saved store does not load: {e}")),
                        None => {}
                    }
                }
                Some(Err(_)) => ctx.label("save_refused"),
                None => {}
            }
            if via_file {
                let _ = std::fs::remove_file(&path);
            }
        }
        "simple_zip:default" | "simple_zip:custom" => {
            let conf = if name == "simple_zip:default" {
                SimpleZipConfig::default()
            } else {
                let min = 1 + (p1 % 24) as usize;
                let max = min + (p2 % 300) as usize;
                let delims: Vec<u8> = match p3 % 5 {
                    0 => vec![b'\n', b'\r', b'\t', b' '],
                    1 => vec![],
                    2 => vec![b' '],
                    3 => (0u8..=255).collect(),
                    _ => vec![b'e', b'o', 0u8],
                };
                ctx.label(format!("delims_{}", p3 % 5));
                ctx.label(if max == min { "max_frag==min_frag" } else { "max_frag>min_frag" });
                match SimpleZipConfig::builder().min_frag_len(min).max_frag_len(max).delimiters(delims).build() {
                    Ok(c) => c,
                    Err(_) => {
                        ctx.label("config_refused");
                        return;
                    }
                }
            };
            match ctx.no_panic("build", || SimpleZipBlobStore::build_from(&recs, &conf)) {
                Some(Ok(s)) => {
                    let mut w = Full(s);
                    check_bulk(ctx, &mut w, &recs, probes, "");
                }
                Some(Err(_)) => ctx.label("build_refused"),
                None => {}
            }
        }
        "mixed_len:auto" => match ctx.no_panic("build", || MixedLenBlobStore::build_from(&recs)) {
            Some(Ok(s)) => {
                ctx.label(format!("fixed_share_{}", if recs.is_empty() { "na" } else if s.fixed_count() == recs.len() { "all" } else if s.fixed_count() * 2 >= recs.len() { ">=half" } else { "<half" }));
                let mut w = Full(s);
                check_bulk(ctx, &mut w, &recs, probes, "");
            }
            Some(Err(_)) => ctx.label("build_refused"),
            None => {}
        },
        "mixed_len:fixed" => {
            // explicit fixed length: one that occurs in the data, 0, or an arbitrary one
            let fl = match p3 % 4 {
                0 if !recs.is_empty() => recs[p1 as usize % recs.len()].len(),
                1 => 0,
                2 => filler.as_ref().map(|f| f.fixed).unwrap_or(8),
                _ => (p2 % 40) as usize,
            };
            ctx.label(if fl == 0 { "fixed_len=0" } else { "fixed_len>0" });
            match ctx.no_panic("build", || MixedLenBlobStore::build_from_with_fixed_len(&recs, fl)) {
                Some(Ok(s)) => {
                    let nfixed = recs.iter().filter(|r| r.len() == fl).count();
                    ctx.label(format!("fixed_share_{}", if recs.is_empty() { "na" } else if nfixed == recs.len() { "all" } else if nfixed == 0 { "none" } else { "mixed" }));
                    let mut w = Full(s);
                    check_bulk(ctx, &mut w, &recs, probes, "");
                }
                Some(Err(_)) => ctx.label("build_refused"),
                None => {}
            }
        }
        "nestlouds_builder" => {
            if recs.len() > 600 {
                recs.truncate(600);
            }
            let conf = match cfg % 4 {
                0 => TrieBlobStoreConfig::default(),
                1 => TrieBlobStoreConfig::performance_optimized(),
                2 => TrieBlobStoreConfig::memory_optimized(),
                _ => TrieBlobStoreConfig::security_optimized(),
            };
            ctx.label(format!("trie_config_{}", cfg % 4));
            let dup = p3 % 3 == 0;
            ctx.label(if dup { "duplicate_keys" } else { "unique_keys" });
            let keyspace = 1 + (p1 as usize % 40);
            let keys: Vec<Vec<u8>> = (0..recs.len())
                .map(|i| {
                    let k = if dup { (i * 7 + (p2 as usize)) % keyspace } else { i };
                    // unordered on purpose (the builder may sort): multiplicative scramble of the index
                    format!("key/{:05}", (k * 7919) % 100_003).into_bytes()
                })
                .collect();
            let built = ctx.no_panic("build", || -> ZResult<Trie> {
                let mut b = NestLoudsTrieBlobStoreBuilder::<RankSelectInterleaved256>::new(conf)?;
                if cfg & 4 == 0 {
                    for (k, r) in keys.iter().zip(&recs) {
                        b.add(k, r)?;
                    }
                } else {
                    b.add_batch(keys.iter().cloned().zip(recs.iter().cloned()))?;
                }
                b.finish()
            });
            let Some(built) = built else { return };
            let mut store = match built {
                Ok(s) => s,
                Err(_) => {
                    ctx.label("build_refused");
                    return;
                }
            };
            let n = recs.len();
            let cc = format!("trie_config_{}", cfg % 4);
            if let Some(l) = ctx.no_panic("len", || BlobStore::len(&store)) {
                ctx.eq("len", &cc, &l, &n);
            }
            // the builder hands out no ids and documents that it reorders insertions, so the id view is
            // compared as a multiset: every input record is stored under exactly one live id
            if let Some(ids) = ctx.no_panic("iter_ids", || IterableBlobStore::iter_ids(&store).collect::<Vec<_>>()) {
                ctx.eq("iter_ids", "count", &ids.len(), &n);
                let mut got: Vec<Bytes> = vec![];
                for id in ids {
                    match ctx.no_panic("get", || BlobStore::get(&store, id)) {
                        Some(Ok(d)) => {
                            if let Some(Ok(sz)) = ctx.no_panic("size", || BlobStore::size(&store, id)) {
                                ctx.eq("size", lc(d.len()), &sz, &Some(d.len()));
                            }
                            got.push(Bytes(d));
                        }
                        Some(Err(e)) => {
                            ctx.fail("get", "err", "", format!("id {id} yielded by iter_ids cannot be read: {e}"));
                            break;
                        }
                        None => return,
                    }
                }
                let mut want: Vec<Bytes> = recs.iter().map(|r| Bytes(r.clone())).collect();
                got.sort();
                want.sort();
                ctx.eq("get", "multiset", &got, &want);
            }
            // key view: last value added for the key
            let mut latest: BTreeMap<&[u8], &[u8]> = BTreeMap::new();
            for (k, r) in keys.iter().zip(&recs) {
                latest.insert(k, r);
            }
            for (k, want) in latest.iter().take(200) {
                match ctx.no_panic("get_by_key", || store.get_by_key(k)) {
                    Some(Ok(d)) => {
                        ctx.eq("get_by_key", if dup { "duplicate_keys" } else { "unique_keys" }, &Bytes(d), &Bytes(want.to_vec()));
                    }
                    Some(Err(e)) => ctx.fail("get_by_key", "err", if dup { "duplicate_keys" } else { "unique_keys" }, format!("key {:?}: {e}", String::from_utf8_lossy(k))),
                    None => return,
                }
                if ctx.saturated() {
                    return;
                }
            }
            if let Some(b) = ctx.no_panic("contains_key", || store.contains_key(b"key/absent")) {
                ctx.eq("contains_key", "absent", &b, &false);
            }
            if let Some(r) = ctx.no_panic("get_by_prefix", || store.get_by_prefix(b"key/0")) {
                match r {
                    Ok(pairs) => {
                        let mut got: Vec<(Bytes, Bytes)> = pairs.into_iter().map(|(k, v)| (Bytes(k), Bytes(v))).collect();
                        let mut want: Vec<(Bytes, Bytes)> = latest.iter().filter(|(k, _)| k.starts_with(b"key/0")).map(|(k, v)| (Bytes(k.to_vec()), Bytes(v.to_vec()))).collect();
                        got.sort();
                        want.sort();
                        ctx.eq("get_by_prefix", &cc, &got, &want);
                    }
                    Err(e) => ctx.fail("get_by_prefix", "err", &cc, format!("{e}")),
                }
            }
            // out-of-range ids
            for id in [n as RecordId, u32::MAX] {
                if let Some(r) = ctx.no_panic("get_absent", || BlobStore::get(&store, id)) {
                    ctx.ensure("get_absent", "never_issued", r.is_err(), || format!("get({id}) succeeded with {n} records"));
                }
                if let Some(b) = ctx.no_panic("contains", || BlobStore::contains(&store, id)) {
                    ctx.eq("contains", "never_issued", &b, &false);
                }
            }
            // finished stores are read-only: writes are refused or reflected
            if let Some(r) = ctx.no_panic("put", || store.put_with_key(b"late", b"x")) {
                match r {
                    Err(_) => ctx.label("put_refused_read_only"),
                    Ok(id) => {
                        ctx.label("put_accepted_on_bulk_store");
                        if let Some(g) = ctx.no_panic("get", || BlobStore::get(&store, id)) {
                            ctx.eq("get", "after_put_on_bulk", &g.ok().map(Bytes), &Some(Bytes(b"x".to_vec())));
                        }
                    }
                }
            }
        }
        "zero_length:finish" => {
            let n = filler.as_ref().map(|f| f.n).unwrap_or(0) + explicit.len();
            let recs: Vec<Vec<u8>> = vec![vec![]; n];
            if let Some(s) = ctx.no_panic("build", || ZeroLengthBlobStore::finish(n)) {
                let mut w = Full(s);
                check_bulk(ctx, &mut w, &recs, probes, "");
            }
        }
        other => ctx.skip(format!("unknown cell {other}")),
    }
}

// ---------------------------------------------------------------------------------------
// the property
// ---------------------------------------------------------------------------------------

impl Prop for P {
    fn id(&self) -> &'static str {
        "C03"
    }
    fn rule(&self) -> &'static str {
        "history cells: proptest vec of put/put_batch/remove/get/contains/size/len/get_batch/remove_batch/flush/probe-never-issued-id (+reopen for the directory store, +put_with_key/get_by_key/contains_key/get_by_prefix/finalize for the keyed store) interpreted against the store and a BTreeMap<id,bytes> model, then a full scan (every issued id, len, iter_ids both directions, blob iterator, get_batch); records: empty, 1 byte, equal-length groups, lengths around 16/64/128/256, compressible and random records of 1-8 KiB, up to 64 KiB. Non-trivial history = a live id was removed and a later put succeeded AND a record > 1 KiB was stored AND >= 4 gets of live ids returned the stored bytes (zero_length: >= 3 puts, >= 4 good gets, >= 1 refused non-empty put). Bulk cells: 0-2000 records (explicit + seeded filler with fixed / mostly-fixed / variable / empty lengths), every record compared with its input; non-trivial = >= 130 records (more than one 64/128-record offset block). Distinct by hash of the case JSON."
    }
    fn assumptions(&self) -> Vec<String> {
        vec![
            "Err from put / put_batch / remove / remove_batch / a constructor / a builder is 'refused' (read-only store, empty blob on dictzip, non-empty blob on zero_length, finalized trie store): the model is left unchanged and later answers must be consistent with that".into(),
            "a put may return any id that is not live at that moment (re-issuing the id of a removed record, e.g. after re-opening a directory store, is not flagged)".into(),
            "size of an absent id may be Ok(None) or Err; get of an absent id must be Err; remove of an absent id must be Err (trait doc: 'Err - if the blob doesn't exist')".into(),
            "get_batch returning Err is flagged only when every requested id is live".into(),
            "after a put_batch that returned Err the set of extra live records is unknown: len / iter_ids / never-issued probes are no longer asserted for that history, per-id checks continue".into(),
            "keyed store: get_by_key(k) must be the data of the newest record put under k while that record is live, and absent once it is removed and no other record of k is live; when two live records share a key and one of them is removed the statement does not determine the key's answer, so that key is no longer asserted until it is put again".into(),
            "keyed store: keys the store invents for unkeyed puts may appear in prefix results (at most one per unkeyed put)".into(),
            "nestlouds_builder hands out no ids and documents that it reorders insertions: ids are compared as a multiset of records, keys by 'last value added'".into(),
            "iteration order of iter_ids is not asserted".into(),
        ]
    }
    fn plans(&self, tier: Tier) -> Vec<Plan> {
        let mut v = vec![];
        let max_ops = tier.pick(40, 120);
        for (name, mq, mt, weight, raw) in HIST_CELLS {
            let max_rec = tier.pick(*mq, *mt);
            // the dictionary stores cost ~80 ms per history (dictionary build), everything else < 5 ms
            let cases = if name.starts_with("dictzip") { tier.pick(*weight * 10, *weight * 150) } else { tier.pick(*weight * 20, *weight * 400) };
            // ASan + overflow checks make the dictionary build ~10x slower: smaller share for dictzip
            let cases_b = if name.starts_with("dictzip") { cases / 40 } else if *raw { cases / 12 } else { cases / 30 };
            let keyed = name.starts_with("nestlouds");
            let reopen = *name == "plain";
            let zero = *name == "zero_length";
            let trained = name.ends_with(":trained") || name.starts_with("dictzip");
            let train = if name.starts_with("dictzip") { train_samples_dict() } else if trained { train_samples() } else { Just(vec![]).boxed() };
            let s = (train, any::<u8>(), ops(max_rec, max_ops, keyed, reopen, zero, name.starts_with("dictzip"))).prop_map(|(train, cfg, ops)| Case::Hist { train, cfg, ops });
            v.push(Plan::new(name, cases, cases_b, s));
        }
        for (name, weight, raw) in BULK_CELLS {
            let cases = tier.pick(*weight * 15, *weight * 250);
            // per-record zstd + byte-wise FastVec growth is slow under ASan: smaller share for zipoffset
            let cases_b = if name.starts_with("zipoffset") { cases / 40 } else if *raw { cases / 12 } else { cases / 30 };
            v.push(Plan::new(name, cases, cases_b, bulk(tier.pick(2000, 6000))));
        }
        v
    }

    fn run(&self, case: &Value, ctx: &mut Ctx) {
        let c: Case = decode(case);
        match c {
            Case::Hist { train, cfg, ops } => run_hist(ctx, cfg, &train, &ops),
            Case::Bulk { cfg, p1, p2, p3, explicit, filler, probes } => run_bulk(ctx, cfg, p1, p2, p3, &explicit, &filler, &probes),
        }
        // debugging aid for module authors: census of discrepancy signatures (never set by registered commands)
        if let Ok(p) = std::env::var("C03_SIGLOG") {
            use std::io::Write;
            if let Ok(mut f) = std::fs::OpenOptions::new().create(true).append(true).open(p) {
                for d in &ctx.out.discrepancies {
                    let _ = writeln!(f, "{}\t{}", d.signature(), crate::engine::clip(&d.detail, 160));
                }
            }
        }
    }
}
