//! C01 — entropy codecs are lossless for every input and variant.
//!
//! Oracle: round trip.  Whenever model construction and encoding both return `Ok`, decoding the
//! produced bytes with the matching decoder (and the original length where the decoder takes
//! one) must return `Ok(payload)` byte for byte.  `Err` or a panic while building the model or
//! encoding counts as "encoding did not succeed" (labelled, never flagged).  Side checks on the
//! same case: encoding twice with one encoder gives identical bytes, the `encode_xN` aliases
//! equal `encode_with_interleaving(.., XN)`, and a model that went through
//! `serialize -> deserialize` decodes what the original model encoded.

use crate::engine::{decode, try_call, Ctx, PanicInfo, Plan, Prop, Tier};
use crate::gen::{expand, Bytes, Content, Payload, ALL_CONTENT};
use proptest::prelude::*;
use serde::{Deserialize, Serialize};
use serde_json::Value;
use std::collections::HashMap;
use zipora::entropy::dictionary::Dictionary;
use zipora::entropy::huffman::InterleavingFactor;
use zipora::entropy::parallel::{
    AdaptiveParallelEncoder, ParallelConfig, ParallelHuffmanDecoder, ParallelHuffmanEncoder, ParallelX2Variant, ParallelX4Variant,
    ParallelX8Variant,
};
use zipora::entropy::rans::{AdaptiveRans64Encoder, ParallelX1, ParallelX2, ParallelX4, ParallelX8, Rans64Decoder, Rans64Encoder};
use zipora::entropy::{
    fse_compress, fse_compress_with_config, fse_decompress, fse_decompress_with_config, fse_unzip, fse_zip, ContextualHuffmanDecoder,
    ContextualHuffmanEncoder, DictionaryBuilder, DictionaryCompressor, FseConfig, FseDecoder, FseEncoder, HuffmanDecoder, HuffmanEncoder,
    HuffmanOrder, HuffmanSimdTier, HuffmanTree, OptimizedDictionaryCompressor, SimdHuffmanConfig, SimdHuffmanEncoder,
};

pub struct P;

/// How the model ("training data") relates to the payload.
#[derive(Clone, Debug, Serialize, Deserialize)]
pub enum Train {
    /// model built from the payload itself
    Same,
    /// payload followed by `extra` noise bytes
    Superset { seed: u64, extra: u16 },
    /// the first `frac/256` of the payload (the rest may contain symbols / contexts the model never saw)
    Prefix { frac: u8 },
    /// same content class, length and alphabet as the payload, different random stream
    Sibling { seed: u64 },
    /// the payload rotated left by `by` positions (same histogram, different positions)
    Shifted { by: u16 },
    /// the payload mapped onto symbols that do not occur in it
    Disjoint,
    /// unrelated data
    Unrelated(Payload),
    /// the payload's first digram repeated `reps` times: one context with one overwhelmingly
    /// frequent successor, so with a real Huffman tree every other successor of that byte gets a
    /// code of about log2(100*reps) bits (on the pinned tree every 256-symbol context tree falls
    /// back to fixed 8-bit codes because the heap merges the largest nodes first; the class
    /// starts to bite as soon as that is repaired -- see the sensitivity section of the report)
    Dominant { reps: u16 },
    Empty,
    /// frequency tables (only for the cells whose constructor takes a table): Fibonacci weights
    /// over the payload's symbols (deepest possible Huffman codes), one huge count + ones, all ones
    FibFreq { rot: u8 },
    SkewFreq { big: u32, all: bool },
    FlatFreq,
}

#[derive(Clone, Debug, Serialize, Deserialize)]
pub struct Case {
    pub p: Payload,
    pub t: Train,
    /// small selector: API path / configuration variant inside the cell
    pub aux: u8,
    /// `Some((dom, singles))`: replace the payload content (keeping its length) by one dominant
    /// symbol plus `singles` other symbols that occur exactly once each, evenly spread -- the
    /// histogram shape that makes frequency normalisation round present symbols down to zero
    #[serde(default)]
    pub spike: Option<(u8, u8)>,
}

fn spike_bytes(len: usize, dom: u8, singles: u8) -> Vec<u8> {
    let mut v = vec![dom; len];
    let n = (singles as usize).min(len.saturating_sub(1));
    for j in 0..n {
        v[(j + 1) * len / (n + 1)] = dom.wrapping_add(1 + j as u8);
    }
    v
}

enum Model {
    Data(Vec<u8>),
    Freqs(Box<[u32; 256]>),
}

// ---------------------------------------------------------------------------------------
// generators
// ---------------------------------------------------------------------------------------

const LEN_POINTS: &[usize] = &[
    1, 2, 3, 4, 5, 7, 8, 9, 15, 16, 17, 31, 32, 33, 63, 64, 65, 72, 73, 74, 99, 100, 101, 127, 128, 129, 255, 256, 257, 511, 512, 513, 1023, 1024,
    1025, 2047, 2048, 2049, 4095, 4096, 4097, 5328, 5329, 5330, 8191, 8192, 8193, 16383, 16384, 16385, 32767, 32768, 32769, 65535, 65536,
];

fn len_strategy(max: usize) -> BoxedStrategy<usize> {
    let pts: Vec<usize> = LEN_POINTS.iter().copied().filter(|&x| x <= max).collect();
    let big: Vec<usize> = pts.iter().copied().filter(|&x| x * 4 >= max).collect();
    prop_oneof![
        2 => 0usize..=9,
        4 => proptest::sample::select(pts),
        2 => 0usize..=300.min(max),
        2 => 0usize..=max,
        1 => proptest::sample::select(if big.is_empty() { vec![max] } else { big }),
    ]
    .boxed()
}

/// payload: every content class (those in `boost` three more times), plus short raw vectors
fn payload(max: usize, boost: &'static [Content]) -> BoxedStrategy<Payload> {
    let mut classes = ALL_CONTENT.to_vec();
    for _ in 0..3 {
        classes.extend_from_slice(boost);
    }
    prop_oneof![
        9 => (proptest::sample::select(classes), len_strategy(max), any::<u64>()).prop_map(|(content, len, seed)| Payload::Gen { content, len, seed }),
        1 => proptest::collection::vec(any::<u8>(), 0..=24usize.min(max)).prop_map(|v| Payload::Raw(Bytes(v))),
        1 => proptest::collection::vec(prop_oneof![Just(0u8), Just(1u8), Just(0x7f), Just(0x80), Just(0xff), Just(b'a'), Just(b'b')], 0..=40usize.min(max))
            .prop_map(|v| Payload::Raw(Bytes(v))),
    ]
    .boxed()
}

fn unrelated(max: usize) -> BoxedStrategy<Train> {
    (proptest::sample::select(ALL_CONTENT.to_vec()), len_strategy(max), any::<u64>())
        .prop_map(|(content, len, seed)| Train::Unrelated(Payload::Gen { content, len, seed }))
        .boxed()
}

/// training classes for cells whose model is built from bytes
fn train_data(max: usize) -> BoxedStrategy<Train> {
    prop_oneof![
        5 => Just(Train::Same),
        2 => (any::<u64>(), 1u16..300).prop_map(|(seed, extra)| Train::Superset { seed, extra }),
        3 => prop_oneof![Just(128u8), Just(250u8), any::<u8>()].prop_map(|frac| Train::Prefix { frac }),
        3 => any::<u64>().prop_map(|seed| Train::Sibling { seed }),
        1 => prop_oneof![Just(1u16), Just(7u16), any::<u16>()].prop_map(|by| Train::Shifted { by }),
        2 => Just(Train::Disjoint),
        3 => unrelated(max),
        1 => Just(Train::Empty),
    ]
    .boxed()
}

fn dominant() -> BoxedStrategy<Train> {
    prop_oneof![Just(1u16), Just(40u16), Just(300u16), Just(640u16), Just(700u16), Just(1000u16), Just(3000u16), 1u16..4000].prop_map(|reps| Train::Dominant { reps }).boxed()
}

/// training classes for the order-1 context models: `Dominant` added (code lengths around and
/// above the 12-bit decode table and the 16-bit fast encode table)
fn train_ctx(max: usize) -> BoxedStrategy<Train> {
    prop_oneof![3 => train_data(max), 1 => dominant()].boxed()
}

/// training classes for cells whose constructor (also) takes a frequency table
fn train_any(max: usize) -> BoxedStrategy<Train> {
    prop_oneof![
        6 => train_data(max),
        2 => any::<u8>().prop_map(|rot| Train::FibFreq { rot }),
        1 => (prop_oneof![Just(1u32 << 30), Just(4096u32), Just(4095u32), 2u32..100_000], any::<bool>()).prop_map(|(big, all)| Train::SkewFreq { big, all }),
        1 => Just(Train::FlatFreq),
    ]
    .boxed()
}

fn case(p: BoxedStrategy<Payload>, t: BoxedStrategy<Train>) -> BoxedStrategy<Case> {
    let spike = prop_oneof![
        9 => Just(None),
        1 => (any::<u8>(), prop_oneof![Just(255u8), Just(254u8), Just(1u8), 1u8..=255]).prop_map(Some),
    ];
    (p, t, any::<u8>(), spike).prop_map(|(p, t, aux, spike)| Case { p, t, aux, spike }).boxed()
}

const SIMD_TIERS: &[(&str, HuffmanSimdTier)] = &[
    ("avx2bmi2", HuffmanSimdTier::Avx2Bmi2),
    ("avx2", HuffmanSimdTier::Avx2),
    ("sse42bmi2", HuffmanSimdTier::Sse42Bmi2),
    ("sse42", HuffmanSimdTier::Sse42),
    ("bmi2", HuffmanSimdTier::Bmi2),
    ("scalar", HuffmanSimdTier::Scalar),
];

const FSE_PRESETS: &[&str] = &["default", "fast", "high", "realtime", "balanced"];

fn fse_cfg(name: &str) -> FseConfig {
    match name {
        "fast" => FseConfig::fast_compression(),
        "high" => FseConfig::high_compression(),
        "realtime" => FseConfig::realtime(),
        "balanced" => FseConfig::balanced(),
        _ => FseConfig::default(),
    }
}

// ---------------------------------------------------------------------------------------
// helpers
// ---------------------------------------------------------------------------------------

fn hist(data: &[u8]) -> [u32; 256] {
    let mut h = [0u32; 256];
    for &b in data {
        h[b as usize] += 1;
    }
    h
}

fn distinct(data: &[u8]) -> usize {
    hist(data).iter().filter(|&&c| c > 0).count()
}

fn len_class(n: usize) -> &'static str {
    match n {
        0 => "len=0",
        1 => "len=1",
        2..=8 => "len=2-8",
        9..=99 => "len=9-99",
        100..=1023 => "len=100-1023",
        1024..=4095 => "len=1K-4K",
        4096..=8191 => "len=4K-8K",
        _ => "len>=8K",
    }
}

fn train_name(t: &Train) -> &'static str {
    match t {
        Train::Same => "same",
        Train::Superset { .. } => "superset",
        Train::Prefix { .. } => "prefix",
        Train::Sibling { .. } => "sibling",
        Train::Shifted { .. } => "shifted",
        Train::Disjoint => "disjoint",
        Train::Unrelated(_) => "unrelated",
        Train::Dominant { .. } => "dominant",
        Train::Empty => "empty",
        Train::FibFreq { .. } => "fib_freq",
        Train::SkewFreq { .. } => "skew_freq",
        Train::FlatFreq => "flat_freq",
    }
}

fn fib_upto(n: usize) -> Vec<u32> {
    let mut f: Vec<u32> = vec![1, 1];
    while f.len() < n {
        let k = f.len();
        f.push(f[k - 1] + f[k - 2]);
    }
    f
}

fn build_model(t: &Train, p: &Payload, payload: &[u8]) -> Model {
    match t {
        Train::Same => Model::Data(payload.to_vec()),
        Train::Superset { seed, extra } => {
            let mut v = payload.to_vec();
            v.extend_from_slice(&expand(Content::Uniform, *extra as usize, *seed));
            Model::Data(v)
        }
        Train::Prefix { frac } => Model::Data(payload[..payload.len() * (*frac as usize) / 256].to_vec()),
        Train::Sibling { seed: s2 } => match p {
            Payload::Gen { content, len, seed } => {
                const KEEP: u64 = 0x00FF_FF00; // bits that fix the alphabet / context bytes in gen::expand
                Model::Data(expand(*content, *len, (seed & KEEP) | (s2 & !KEEP)))
            }
            Payload::Raw(_) | Payload::Framed { .. } => {
                let mut v = payload.to_vec();
                v.reverse();
                Model::Data(v)
            }
        },
        Train::Shifted { by } => {
            let mut v = payload.to_vec();
            if !v.is_empty() {
                let k = (*by as usize) % v.len();
                v.rotate_left(k);
            }
            Model::Data(v)
        }
        Train::Disjoint => {
            let h = hist(payload);
            let absent: Vec<u8> = (0..=255u8).filter(|&s| h[s as usize] == 0).collect();
            if absent.is_empty() {
                Model::Data(payload.to_vec())
            } else {
                Model::Data(payload.iter().map(|&b| absent[b as usize % absent.len()]).collect())
            }
        }
        Train::Unrelated(q) => Model::Data(q.bytes()),
        Train::Dominant { reps } => {
            if payload.len() < 2 {
                Model::Data(payload.to_vec())
            } else {
                let mut v = Vec::with_capacity(2 * *reps as usize);
                for _ in 0..*reps {
                    v.push(payload[0]);
                    v.push(payload[1]);
                }
                Model::Data(v)
            }
        }
        Train::Empty => Model::Data(vec![]),
        Train::FibFreq { rot } => {
            let h = hist(payload);
            let mut syms: Vec<u8> = (0..=255u8).filter(|&s| h[s as usize] > 0).collect();
            if syms.is_empty() {
                syms.push(0);
            }
            let k = *rot as usize % syms.len();
            syms.rotate_left(k);
            let fib = fib_upto(44);
            let mut f = Box::new([0u32; 256]);
            for (i, s) in syms.iter().enumerate() {
                f[*s as usize] = if i < 44 { fib[i] } else { 1 };
            }
            Model::Freqs(f)
        }
        Train::SkewFreq { big, all } => {
            let h = hist(payload);
            let mut f = Box::new([0u32; 256]);
            let mut first = true;
            for s in 0..256 {
                if h[s] > 0 || *all {
                    f[s] = 1;
                }
                if h[s] > 0 && first {
                    f[s] = (*big).max(1);
                    first = false;
                }
            }
            if first {
                f[0] = (*big).max(1);
            }
            Model::Freqs(f)
        }
        Train::FlatFreq => Model::Freqs(Box::new([1u32; 256])),
    }
}

fn model_bytes(m: Model) -> Vec<u8> {
    match m {
        Model::Data(v) => v,
        // cells that only take bytes never generate a table; be total anyway
        Model::Freqs(f) => (0..=255u8).filter(|&s| f[s as usize] > 0).collect(),
    }
}

fn model_freqs(m: &Model) -> [u32; 256] {
    match m {
        Model::Data(v) => hist(v),
        Model::Freqs(f) => **f,
    }
}

fn short_panic(p: &PanicInfo) -> String {
    let c = p.class();
    crate::engine::clip(&c, 70)
}

/// Run a model-construction / encoding step.  `Err` and panics mean "encoding did not succeed".
fn attempt<T>(ctx: &mut Ctx, stage: &str, f: impl FnOnce() -> zipora::Result<T>) -> Option<T> {
    match try_call(f) {
        Ok(Ok(v)) => Some(v),
        Ok(Err(_)) => {
            ctx.label(format!("{}:{}_refused", ctx.cell, stage));
            None
        }
        Err(p) => {
            ctx.label(format!("{}:{}_panicked", ctx.cell, stage));
            ctx.label(format!("{stage}_{}", short_panic(&p)));
            None
        }
    }
}

fn encoded_ok(ctx: &mut Ctx, payload: &[u8]) {
    ctx.label(format!("{}:enc_ok", ctx.cell));
    if payload.len() >= 2 && distinct(payload) >= 2 {
        ctx.nontrivial();
    }
}

fn describe_diff(got: &[u8], want: &[u8]) -> String {
    let first = got.iter().zip(want.iter()).position(|(a, b)| a != b).unwrap_or(got.len().min(want.len()));
    let ndiff = got.iter().zip(want.iter()).filter(|(a, b)| a != b).count();
    let win = |v: &[u8]| crate::gen::hex(&v[first.min(v.len())..(first + 12).min(v.len())]);
    format!(
        "decoded {} bytes, expected {}; first difference at index {} (got ..{} want ..{}); {} of the common positions differ",
        got.len(),
        want.len(),
        first,
        win(got),
        win(want),
        ndiff
    )
}

/// Compare the result of a decode call with the payload; records `<aspect>/{mismatch,err,panic}/<class>`.
fn check_decoded(ctx: &mut Ctx, aspect: &str, class: &str, payload: &[u8], r: Result<zipora::Result<Vec<u8>>, PanicInfo>) -> bool {
    ctx.out.checks += 1;
    match r {
        Ok(Ok(got)) => {
            if got == payload {
                true
            } else {
                ctx.fail(aspect, "mismatch", class, describe_diff(&got, payload));
                false
            }
        }
        Ok(Err(e)) => {
            ctx.fail(aspect, "err", class, format!("decoding freshly encoded data ({} payload bytes) failed: {e}", payload.len()));
            false
        }
        Err(p) => {
            let cls = if class.is_empty() { p.class() } else { format!("{class};{}", p.class()) };
            ctx.fail(aspect, "panic", &cls, format!("{}:{}: {}", p.file, p.line, crate::engine::clip(&p.msg, 300)));
            false
        }
    }
}

fn same_bytes(ctx: &mut Ctx, aspect: &str, class: &str, a: &[u8], b: &[u8]) {
    ctx.out.checks += 1;
    if a != b {
        ctx.fail(aspect, "mismatch", class, describe_diff(a, b));
    }
}

fn codelen_bucket(n: usize) -> &'static str {
    match n {
        0..=12 => "maxcode<=12",
        13..=16 => "maxcode13-16",
        17..=32 => "maxcode17-32",
        _ => "maxcode>32",
    }
}

fn train_class(t: &Train) -> &'static str {
    if matches!(t, Train::Same) {
        "train=same"
    } else {
        "train=other"
    }
}

// ---------------------------------------------------------------------------------------
// Huffman order-0 family
// ---------------------------------------------------------------------------------------

fn huff_encoder(ctx: &mut Ctx, m: &Model) -> Option<HuffmanEncoder> {
    match m {
        Model::Data(d) => attempt(ctx, "model", || HuffmanEncoder::new(d)),
        Model::Freqs(f) => attempt(ctx, "model", || HuffmanEncoder::from_frequencies(f)),
    }
}

fn run_huff0(ctx: &mut Ctx, payload: &[u8], m: &Model) {
    let Some(enc) = huff_encoder(ctx, m) else { return };
    let bucket = codelen_bucket(enc.tree().max_code_length());
    ctx.label(format!("huff_{bucket}"));
    let Some(bytes) = attempt(ctx, "encode", || enc.encode(payload)) else { return };
    encoded_ok(ctx, payload);
    let dec = HuffmanDecoder::new(enc.tree().clone());
    check_decoded(ctx, "roundtrip", bucket, payload, try_call(|| dec.decode(&bytes, payload.len())));
    if let Some(again) = attempt(ctx, "encode", || enc.encode(payload)) {
        same_bytes(ctx, "deterministic", "", &again, &bytes);
    }
}

fn run_tree_serde_huff(ctx: &mut Ctx, payload: &[u8], m: &Model) {
    let Some(enc) = huff_encoder(ctx, m) else { return };
    let bucket = codelen_bucket(enc.tree().max_code_length());
    ctx.label(format!("huff_{bucket}"));
    let Some(bytes) = attempt(ctx, "encode", || enc.encode(payload)) else { return };
    encoded_ok(ctx, payload);
    let ser = match try_call(|| enc.tree().serialize()) {
        Ok(s) => s,
        Err(p) => {
            ctx.fail("serde_roundtrip", "panic", &p.class(), format!("HuffmanTree::serialize panicked: {}", p.msg));
            return;
        }
    };
    match try_call(|| HuffmanTree::deserialize(&ser)) {
        Ok(Ok(tree2)) => {
            let dec = HuffmanDecoder::new(tree2);
            check_decoded(ctx, "serde_roundtrip", bucket, payload, try_call(|| dec.decode(&bytes, payload.len())));
        }
        Ok(Err(e)) => ctx.fail("serde_roundtrip", "err", bucket, format!("deserialize(serialize(tree)) failed: {e}")),
        Err(p) => ctx.fail("serde_roundtrip", "panic", &p.class(), format!("deserialize panicked: {}", p.msg)),
    }
}

fn run_simd_huff(ctx: &mut Ctx, payload: &[u8], train: &[u8], tier: HuffmanSimdTier, aux: u8) {
    let cfg = SimdHuffmanConfig {
        preferred_tier: tier,
        enable_batch_processing: aux & 1 == 0,
        batch_size: [256usize, 1, 7, 4096][(aux >> 1) as usize % 4],
        enable_prefetching: aux & 8 == 0,
        cache_aligned_buffers: aux & 16 == 0,
    };
    let Some(enc) = attempt(ctx, "model", || SimdHuffmanEncoder::with_config(train, cfg)) else { return };
    ctx.label(format!("simd_tier_selected={:?}", enc.tier()));
    let bucket = codelen_bucket(enc.tree().max_code_length());
    ctx.label(format!("huff_{bucket}"));
    let Some(bytes) = attempt(ctx, "encode", || enc.encode(payload)) else { return };
    encoded_ok(ctx, payload);
    let dec = HuffmanDecoder::new(enc.tree().clone());
    check_decoded(ctx, "roundtrip", bucket, payload, try_call(|| dec.decode(&bytes, payload.len())));
}

fn par_cfg(aux: u8) -> ParallelConfig {
    match aux % 4 {
        0 => ParallelConfig::default(),
        1 => ParallelConfig::low_latency(),
        2 => ParallelConfig::high_throughput(),
        // every field is public: force the "parallel" branch for small inputs
        _ => ParallelConfig { num_streams: 4, block_size: 64, adaptive_blocks: aux & 4 == 0, min_parallel_size: 16, load_balancing: aux & 8 == 0 },
    }
}

/// A payload with another histogram than `payload` (symbols permuted, second half constant):
/// the first round of an object-reuse history.
fn other_payload(payload: &[u8]) -> Vec<u8> {
    let n = payload.len().clamp(2, 600);
    (0..n).map(|i| if i < n / 2 { payload.get(i).copied().unwrap_or(7).wrapping_mul(37).wrapping_add(101) } else { 0x41 }).collect()
}

fn run_par_huff<V: zipora::entropy::parallel::ParallelVariant>(ctx: &mut Ctx, payload: &[u8], train: &[u8], aux: u8, explicit_train: bool) {
    let cfg = par_cfg(aux);
    let Some(mut enc) = attempt(ctx, "model", || ParallelHuffmanEncoder::<V>::new(cfg.clone())) else { return };
    let mut dec = ParallelHuffmanDecoder::<V>::new(cfg);
    // object reuse: the same encoder and decoder objects first serve another payload with
    // another tree, then are re-armed (train / set_tree) for the checked payload
    let rounds: Vec<(Vec<u8>, Vec<u8>, bool)> = if aux & 32 != 0 {
        ctx.label("par_huff_objects_reused");
        let w = other_payload(payload);
        vec![(w.clone(), w, true), (payload.to_vec(), train.to_vec(), explicit_train)]
    } else {
        vec![(payload.to_vec(), train.to_vec(), explicit_train)]
    };
    let last = rounds.len() - 1;
    for (k, (payload, train, explicit_train)) in rounds.iter().enumerate() {
        let (payload, train, explicit_train) = (&payload[..], &train[..], *explicit_train);
        // the decoder needs the tree; the encoder does not expose its own, so build it the way
        // `train` does (HuffmanTree::from_data on the same bytes)
        let tree_src: &[u8] = if explicit_train { train } else { payload };
        if explicit_train && attempt(ctx, "model", || enc.train(train)).is_none() {
            return;
        }
        let Some(bytes) = attempt(ctx, "encode", || enc.encode(payload)) else { return };
        if k == last {
            encoded_ok(ctx, payload);
        }
        let Some(tree) = attempt(ctx, "model", || HuffmanTree::from_data(tree_src)) else { return };
        let bucket = codelen_bucket(tree.max_code_length());
        match try_call(|| dec.set_tree(tree)) {
            Ok(Ok(())) => {}
            Ok(Err(e)) => {
                ctx.fail("roundtrip", "err", "set_tree", format!("{e}"));
                return;
            }
            Err(p) => {
                ctx.fail("roundtrip", "panic", &p.class(), p.msg.clone());
                return;
            }
        }
        let class = if last > 0 { format!("{bucket},reused_round{k}") } else { bucket.to_string() };
        check_decoded(ctx, "roundtrip", &class, payload, try_call(|| dec.decode(&bytes, payload.len())));
    }
}

// ---------------------------------------------------------------------------------------
// contextual Huffman (order 0/1/2) and interleaved order-1 streams
// ---------------------------------------------------------------------------------------

/// Code lengths per tree, recovered from `ContextualHuffmanEncoder::serialize()`.  Only used to
/// *classify* inputs (labels / signature class), never to decide a verdict.
struct CtxModel {
    ctx_map: HashMap<u32, usize>,
    lens: Vec<[u8; 256]>,
}

fn parse_ctx_model(s: &[u8]) -> Option<CtxModel> {
    let rd32 = |o: usize| -> Option<usize> { Some(u32::from_le_bytes(s.get(o..o + 4)?.try_into().ok()?) as usize) };
    let trees = rd32(1)?;
    let nctx = rd32(5)?;
    let mut o = 9;
    let mut ctx_map = HashMap::new();
    for _ in 0..nctx {
        ctx_map.insert(rd32(o)? as u32, rd32(o + 4)?);
        o += 8;
    }
    let mut lens = vec![];
    for _ in 0..trees {
        let sz = rd32(o)?;
        o += 4;
        let t = s.get(o..o + sz)?;
        o += sz;
        let n = u16::from_le_bytes(t.get(0..2)?.try_into().ok()?) as usize;
        let mut q = 2;
        let mut l = [0u8; 256];
        for _ in 0..n {
            let sym = *t.get(q)?;
            let len = *t.get(q + 1)?;
            l[sym as usize] = len;
            q += 2 + (len as usize + 7) / 8;
        }
        lens.push(l);
    }
    Some(CtxModel { ctx_map, lens })
}

impl CtxModel {
    fn max_len(&self) -> usize {
        self.lens.iter().flat_map(|l| l.iter()).map(|&x| x as usize).max().unwrap_or(0)
    }
    /// longest code the N-stream order-1 encoder has to emit for `data` (streams are N consecutive
    /// chunks; the first symbol of a chunk is coded with the order-0 tree)
    fn used_max_len(&self, data: &[u8], n: usize) -> usize {
        let mut best = 0usize;
        let mut start = 0usize;
        for k in 0..n {
            let size = data.len() / n + if k < data.len() % n { 1 } else { 0 };
            for i in start..start + size {
                let tree = if i == start { 0 } else { self.ctx_map.get(&(data[i - 1] as u32)).copied().unwrap_or(0) };
                if let Some(l) = self.lens.get(tree) {
                    best = best.max(l[data[i] as usize] as usize);
                }
            }
            start += size;
        }
        best
    }
}

fn order_of(n: u8) -> HuffmanOrder {
    match n {
        0 => HuffmanOrder::Order0,
        1 => HuffmanOrder::Order1,
        _ => HuffmanOrder::Order2,
    }
}

fn run_ctx(ctx: &mut Ctx, payload: &[u8], train: &[u8], order: u8, tclass: &str) {
    let Some(enc) = attempt(ctx, "model", || ContextualHuffmanEncoder::new(train, order_of(order))) else { return };
    ctx.label(format!("ctx_model_order={:?}", enc.order()));
    if let Some(m) = parse_ctx_model(&enc.serialize()) {
        ctx.label(format!("ctx_{}", codelen_bucket(m.max_len())));
    }
    let Some(bytes) = attempt(ctx, "encode", || enc.encode(payload)) else { return };
    encoded_ok(ctx, payload);
    if let Some(again) = attempt(ctx, "encode", || enc.encode(payload)) {
        same_bytes(ctx, "deterministic", "", &again, &bytes);
    }
    let dec = ContextualHuffmanDecoder::new(enc);
    check_decoded(ctx, "roundtrip", tclass, payload, try_call(|| dec.decode(&bytes, payload.len())));
}

fn factor_of(n: usize) -> InterleavingFactor {
    match n {
        1 => InterleavingFactor::X1,
        2 => InterleavingFactor::X2,
        4 => InterleavingFactor::X4,
        _ => InterleavingFactor::X8,
    }
}

fn il_class(m: &Option<CtxModel>, payload: &[u8], n: usize) -> &'static str {
    match m {
        None => "model_unparsed",
        Some(m) => {
            if m.used_max_len(payload, n) > 16 {
                "used_code>16b"
            } else {
                "used_code<=16b"
            }
        }
    }
}

fn run_il(ctx: &mut Ctx, payload: &[u8], train: &[u8], n: usize) {
    let f = factor_of(n);
    let Some(enc) = attempt(ctx, "model", || ContextualHuffmanEncoder::new(train, HuffmanOrder::Order1)) else { return };
    let model = parse_ctx_model(&enc.serialize());
    if let Some(m) = &model {
        ctx.label(format!("ctx_{}", codelen_bucket(m.max_len())));
    }
    let class = il_class(&model, payload, n);
    ctx.label(format!("il_{class}"));
    ctx.label(format!("len_mod_streams={}", payload.len() % n));
    let Some(bytes) = attempt(ctx, "encode", || enc.encode_with_interleaving(payload, f)) else { return };
    encoded_ok(ctx, payload);
    // the aliases and a second call (cached fast symbol table) must produce the same bytes
    let alias = attempt(ctx, "encode", || match n {
        1 => enc.encode_x1(payload),
        2 => enc.encode_x2(payload),
        4 => enc.encode_x4(payload),
        _ => enc.encode_x8(payload),
    });
    if let Some(a) = alias {
        same_bytes(ctx, "alias_encode", "", &a, &bytes);
    }
    if let Some(again) = attempt(ctx, "encode", || enc.encode_with_interleaving(payload, f)) {
        same_bytes(ctx, "deterministic", "", &again, &bytes);
    }
    let ok = check_decoded(ctx, "roundtrip", class, payload, try_call(|| enc.decode_with_interleaving(&bytes, payload.len(), f)));
    if ok {
        let r = try_call(|| match n {
            1 => enc.decode_x1(&bytes, payload.len()),
            2 => enc.decode_x2(&bytes, payload.len()),
            4 => enc.decode_x4(&bytes, payload.len()),
            _ => enc.decode_x8(&bytes, payload.len()),
        });
        check_decoded(ctx, "alias_decode", class, payload, r);
    }
}

fn run_tree_serde_ctx(ctx: &mut Ctx, payload: &[u8], train: &[u8], aux: u8) {
    let order = aux % 3;
    let Some(enc) = attempt(ctx, "model", || ContextualHuffmanEncoder::new(train, order_of(order))) else { return };
    ctx.label(format!("ctx_model_order={:?}", enc.order()));
    let ser = enc.serialize();
    let model = parse_ctx_model(&ser);
    let interleaved = enc.order() == HuffmanOrder::Order1 && aux & 4 != 0;
    let n = [1usize, 2, 4, 8][(aux >> 3) as usize % 4];
    let (bytes, class) = if interleaved {
        let class = il_class(&model, payload, n);
        let Some(b) = attempt(ctx, "encode", || enc.encode_with_interleaving(payload, factor_of(n))) else { return };
        (b, format!("interleaved,{class}"))
    } else {
        let Some(b) = attempt(ctx, "encode", || enc.encode(payload)) else { return };
        (b, format!("order{order}"))
    };
    encoded_ok(ctx, payload);
    match try_call(|| ContextualHuffmanEncoder::deserialize(&ser)) {
        Ok(Ok(enc2)) => {
            ctx.out.checks += 1;
            if enc2.order() != enc.order() || enc2.tree_count() != enc.tree_count() {
                ctx.fail("serde_roundtrip", "mismatch", "shape", format!("order/tree_count {:?}/{} became {:?}/{}", enc.order(), enc.tree_count(), enc2.order(), enc2.tree_count()));
            }
            if interleaved {
                check_decoded(ctx, "serde_roundtrip", &class, payload, try_call(|| enc2.decode_with_interleaving(&bytes, payload.len(), factor_of(n))));
            } else {
                let dec = ContextualHuffmanDecoder::new(enc2);
                check_decoded(ctx, "serde_roundtrip", &class, payload, try_call(|| dec.decode(&bytes, payload.len())));
            }
        }
        Ok(Err(e)) => ctx.fail("serde_roundtrip", "err", &class, format!("deserialize(serialize(model)) failed: {e}")),
        Err(p) => ctx.fail("serde_roundtrip", "panic", &p.class(), format!("deserialize panicked: {}", p.msg)),
    }
}

// ---------------------------------------------------------------------------------------
// rANS
// ---------------------------------------------------------------------------------------

fn run_rans<V: zipora::entropy::rans::ParallelVariant>(ctx: &mut Ctx, payload: &[u8], freqs: &[u32; 256], tclass: &str) {
    ctx.label(format!("len_mod_streams={}", payload.len() % V::N));
    let Some(enc) = attempt(ctx, "model", || Rans64Encoder::<V>::new(freqs)) else { return };
    let Some(bytes) = attempt(ctx, "encode", || enc.encode(payload)) else { return };
    encoded_ok(ctx, payload);
    let dec = match try_call(|| Rans64Decoder::<V>::new(&enc)) {
        Ok(d) => d,
        Err(p) => {
            ctx.fail("roundtrip", "panic", &p.class(), format!("Rans64Decoder::new panicked: {}", p.msg));
            return;
        }
    };
    check_decoded(ctx, "roundtrip", tclass, payload, try_call(|| dec.decode(&bytes, payload.len())));
    if let Some(again) = attempt(ctx, "encode", || enc.encode(payload)) {
        same_bytes(ctx, "deterministic", "", &again, &bytes);
    }
}

fn run_rans_adaptive(ctx: &mut Ctx, payload: &[u8]) {
    let a = AdaptiveRans64Encoder::new();
    let variant = a.select_variant(payload.len());
    ctx.label(format!("rans_adaptive_selected={variant}"));
    let Some(bytes) = attempt(ctx, "encode", || a.encode_adaptive(payload)) else { return };
    encoded_ok(ctx, payload);
    // matching decoder: the variant the encoder reports, over the payload's own histogram
    // (encode_adaptive builds exactly that table and then drops it)
    let f = hist(payload);
    fn dec<V: zipora::entropy::rans::ParallelVariant>(f: &[u32; 256], bytes: &[u8], n: usize) -> zipora::Result<Vec<u8>> {
        let e = Rans64Encoder::<V>::new(f)?;
        Rans64Decoder::<V>::new(&e).decode(bytes, n)
    }
    let r = try_call(|| match variant {
        "x1" => dec::<ParallelX1>(&f, &bytes, payload.len()),
        "x2" => dec::<ParallelX2>(&f, &bytes, payload.len()),
        "x4" => dec::<ParallelX4>(&f, &bytes, payload.len()),
        _ => dec::<ParallelX8>(&f, &bytes, payload.len()),
    });
    check_decoded(ctx, "roundtrip", variant, payload, r);
}

// ---------------------------------------------------------------------------------------
// FSE
// ---------------------------------------------------------------------------------------

/// Input class for FSE signatures.  `table_hist` is the histogram the encoder builds its table
/// from.  Uses the public `FseTable` only to *classify* (does normalisation leave a present symbol
/// without a slot?), never for the verdict.
fn fse_class(payload: &[u8], coded: bool, table_hist: &[u32; 256], cfg: &FseConfig) -> String {
    if !coded {
        return "raw_block".to_string();
    }
    let h = hist(payload);
    if (0..256).any(|s| h[s] > 0 && table_hist[s] == 0) {
        return "len>=100,symbol_not_in_table".to_string();
    }
    let sub = match try_call(|| zipora::entropy::FseTable::new(table_hist, cfg)) {
        Ok(Ok(t)) => {
            if (0..256).any(|s| h[s] > 0 && t.dec_symbols[s].freq == 0) {
                "starved_symbol"
            } else {
                "all_symbols_have_slots"
            }
        }
        _ => "no_table",
    };
    format!("len>=100,{sub}")
}

fn add_hist(a: &[u32; 256], b: &[u32; 256]) -> [u32; 256] {
    let mut r = [0u32; 256];
    for i in 0..256 {
        r[i] = a[i] + b[i];
    }
    r
}

fn run_fse(ctx: &mut Ctx, payload: &[u8], train: &[u8], t: &Train, preset: &str, aux: u8) {
    let cfg = fse_cfg(preset);
    let pretrain = !matches!(t, Train::Same) && !cfg.adaptive && !train.is_empty();
    let paths: u8 = if preset == "default" { 5 } else { 3 };
    let path = if pretrain { 1 } else { aux % paths };
    let table_hist = match path {
        1 if pretrain => hist(train),
        2 => add_hist(&hist(payload), &hist(train)),
        _ => hist(payload),
    };
    let class = fse_class(payload, payload.len() >= 100, &table_hist, &cfg);
    ctx.label(format!("fse_{class}"));
    ctx.label(format!("fse_path={}", ["free_fn_with_config", "encoder_object", "with_dictionary", "fse_compress", "fse_zip"][path as usize]));
    let encoded = match path {
        0 => attempt(ctx, "encode", || fse_compress_with_config(payload, cfg.clone())),
        1 => {
            let Some(mut e) = attempt(ctx, "model", || FseEncoder::new(cfg.clone())) else { return };
            if pretrain {
                // non-adaptive presets keep the table of the first block: model trained on other data
                ctx.label("fse_pretrained_on_other_data");
                if attempt(ctx, "model", || e.compress(train)).is_none() {
                    return;
                }
            }
            attempt(ctx, "encode", || e.compress(payload))
        }
        2 => {
            let Some(mut e) = attempt(ctx, "model", || FseEncoder::with_dictionary(cfg.clone(), train.to_vec())) else { return };
            attempt(ctx, "encode", || e.compress(payload))
        }
        3 => attempt(ctx, "encode", || fse_compress(payload)),
        _ => attempt(ctx, "encode", || fse_zip(payload)),
    };
    let Some(bytes) = encoded else { return };
    encoded_ok(ctx, payload);
    // encoder-object paths: with aux & 32 the decoder object has already decoded another block
    let warm = if (path == 1 || path == 2) && aux & 32 != 0 {
        try_call(|| FseEncoder::new(cfg.clone())?.compress(&other_payload(payload))).ok().and_then(|r| r.ok())
    } else {
        None
    };
    if warm.is_some() {
        ctx.label("fse_decoder_object_reused");
    }
    let r = try_call(|| match path {
        0 => fse_decompress_with_config(&bytes, cfg.clone()),
        1 | 2 => {
            let mut d = FseDecoder::with_config(cfg.clone())?;
            if let Some(w) = &warm {
                let _ = d.decompress(w);
            }
            d.decompress(&bytes)
        }
        3 => fse_decompress(&bytes),
        _ => fse_unzip(&bytes),
    });
    check_decoded(ctx, "roundtrip", &class, payload, r);
}

/// `parallel_blocks` + a small public `block_size`: exercises the multi-block container
fn run_fse_blocks(ctx: &mut Ctx, payload: &[u8], aux: u8) {
    let block = [16usize, 50, 64, 99, 100, 128, 1000][aux as usize % 7];
    let cfg = FseConfig { parallel_blocks: Some(4), block_size: block, ..FseConfig::default() };
    let nblocks = if payload.len() > 2 * block { (payload.len() + block - 1) / block } else { 1 };
    let coded = payload.len() >= 100 && (nblocks == 1 || block >= 100);
    let class = format!(
        "{},{}",
        if nblocks == 1 {
            "single"
        } else if nblocks <= 64 {
            "blocks<=64"
        } else {
            "blocks>64"
        },
        fse_class(payload, coded, &hist(payload), &cfg)
    );
    ctx.label(format!("fse_blocks_{class}"));
    let Some(bytes) = attempt(ctx, "encode", || fse_compress_with_config(payload, cfg.clone())) else { return };
    encoded_ok(ctx, payload);
    check_decoded(ctx, "roundtrip", &class, payload, try_call(|| fse_decompress_with_config(&bytes, cfg.clone())));
}

// ---------------------------------------------------------------------------------------
// dictionary coders
// ---------------------------------------------------------------------------------------

fn dict_builder(aux: u8) -> DictionaryBuilder {
    match aux % 4 {
        0 => DictionaryBuilder::new(),
        1 => DictionaryBuilder::new().min_match_length(4).max_match_length(32).window_size(64).max_entries(16),
        2 => DictionaryBuilder::new().min_match_length(10).max_match_length(258),
        _ => DictionaryBuilder::new().min_match_length(3).max_match_length(12).max_entries(1),
    }
}

fn build_dictionary(ctx: &mut Ctx, train: &[u8], aux: u8) -> Option<Dictionary> {
    // DictionaryBuilder::build is quadratic x match length on repetitive data; the dictionary does
    // not influence compress(), so a short training prefix loses nothing
    let t = &train[..train.len().min(600)];
    match try_call(|| dict_builder(aux).build(t)) {
        Ok(d) => Some(d),
        Err(p) => {
            ctx.label(format!("{}:model_panicked", ctx.cell));
            ctx.label(format!("model_{}", short_panic(&p)));
            None
        }
    }
}

fn run_dict(ctx: &mut Ctx, payload: &[u8], train: &[u8], aux: u8, tclass: &str) {
    let Some(d) = build_dictionary(ctx, train, aux) else { return };
    let mut c = DictionaryCompressor::new(d);
    match (aux >> 2) % 4 {
        0 => {}
        1 => c = c.min_match_length(12).max_match_length(20),
        2 => c = c.min_match_length(1).max_match_length(10),
        _ => c = c.min_match_length(3).max_match_length(1000),
    }
    ctx.label(format!("dict_cfg={}", (aux >> 2) % 4));
    let Some(bytes) = attempt(ctx, "encode", || c.compress(payload)) else { return };
    encoded_ok(ctx, payload);
    ctx.label(if bytes.len() < payload.len() * 2 { "dict_used_matches" } else { "dict_literals_only" });
    check_decoded(ctx, "roundtrip", tclass, payload, try_call(|| c.decompress(&bytes)));
}

fn run_optdict(ctx: &mut Ctx, payload: &[u8], train: &[u8], aux: u8, tclass: &str) {
    let built = match aux % 4 {
        0 | 1 => attempt(ctx, "model", || OptimizedDictionaryCompressor::new(train)),
        2 => attempt(ctx, "model", || OptimizedDictionaryCompressor::with_config(train, 4, 32, 64)),
        _ => attempt(ctx, "model", || OptimizedDictionaryCompressor::with_config(train, 12, 300, 1 << 20)),
    };
    ctx.label(format!("optdict_cfg={}", aux % 4));
    let Some(c) = built else { return };
    let Some(bytes) = attempt(ctx, "encode", || c.compress(payload)) else { return };
    encoded_ok(ctx, payload);
    ctx.label(if bytes.len() < payload.len() * 2 { "dict_used_matches" } else { "dict_literals_only" });
    check_decoded(ctx, "roundtrip", tclass, payload, try_call(|| c.decompress(&bytes)));
}

fn run_tree_serde_dict(ctx: &mut Ctx, payload: &[u8], train: &[u8], aux: u8) {
    let Some(d) = build_dictionary(ctx, train, aux) else { return };
    ctx.label(if d.is_empty() { "dictionary_empty" } else { "dictionary_nonempty" });
    let c = DictionaryCompressor::new(d);
    let Some(bytes) = attempt(ctx, "encode", || c.compress(payload)) else { return };
    encoded_ok(ctx, payload);
    let ser = c.dictionary().serialize();
    match try_call(|| Dictionary::deserialize(&ser)) {
        Ok(Ok(d2)) => {
            ctx.out.checks += 1;
            if d2.len() != c.dictionary().len() {
                ctx.fail("serde_roundtrip", "mismatch", "entries", format!("{} entries became {}", c.dictionary().len(), d2.len()));
            }
            let c2 = DictionaryCompressor::new(d2);
            check_decoded(ctx, "serde_roundtrip", "", payload, try_call(|| c2.decompress(&bytes)));
        }
        Ok(Err(e)) => ctx.fail("serde_roundtrip", "err", "", format!("deserialize(serialize(dictionary)) failed: {e}")),
        Err(p) => ctx.fail("serde_roundtrip", "panic", &p.class(), format!("deserialize panicked: {}", p.msg)),
    }
}

// ---------------------------------------------------------------------------------------
// AdaptiveParallelEncoder (algorithm + variant chosen from the data)
// ---------------------------------------------------------------------------------------

fn run_par_adaptive(ctx: &mut Ctx, payload: &[u8], aux: u8) {
    let Some(mut enc) = attempt(ctx, "model", AdaptiveParallelEncoder::new) else { return };
    if aux & 32 != 0 {
        // object reuse: the encoder has already served another payload
        ctx.label("par_adaptive_object_reused");
        let _ = try_call(|| enc.encode_adaptive(&other_payload(payload)));
    }
    let (alg, variant) = enc.select_optimal_encoding(payload);
    ctx.label(format!("par_adaptive_selected={alg}_{variant}"));
    let Some(bytes) = attempt(ctx, "encode", || enc.encode_adaptive(payload)) else { return };
    encoded_ok(ctx, payload);
    fn rans<V: zipora::entropy::rans::ParallelVariant>(bytes: &[u8], n: usize) -> zipora::Result<Vec<u8>> {
        let e = Rans64Encoder::<V>::new(&[1u32; 256])?; // the table AdaptiveParallelEncoder::new installs
        Rans64Decoder::<V>::new(&e).decode(bytes, n)
    }
    let r = try_call(|| match (alg, variant) {
        ("rans", "x2") => rans::<ParallelX2>(&bytes, payload.len()),
        ("rans", "x4") => rans::<ParallelX4>(&bytes, payload.len()),
        ("rans", _) => rans::<ParallelX8>(&bytes, payload.len()),
        ("fse", _) => fse_decompress(&bytes),
        _ => HuffmanDecoder::new(HuffmanTree::from_data(payload)?).decode(&bytes, payload.len()),
    });
    check_decoded(ctx, "roundtrip", alg, payload, r);
}

// ---------------------------------------------------------------------------------------

impl Prop for P {
    fn id(&self) -> &'static str {
        "C01"
    }
    fn rule(&self) -> &'static str {
        "case = (payload, training relation, selector) per codec cell; payload = content class (constant, two-symbol, k-symbol, all-256, geometric, Fibonacci, order-1 skew, periodic, text, uniform, runs, raw, spike = one dominant symbol + up to 255 symbols occurring once) x boundary-biased length (0,1,2,3, 2^k+-1, 73, 99..101, 5329, 8191..8193); training = same | superset | prefix | sibling (same alphabet, other random stream) | rotated | disjoint alphabet | unrelated | dominant digram (order-1 models) | empty | frequency tables (Fibonacci, one huge count, flat); non-trivial = payload has >= 2 bytes and >= 2 distinct symbols and model construction + encoding succeeded; distinct by hash of the case JSON (cell, payload, training, selector)"
    }
    fn assumptions(&self) -> Vec<String> {
        vec![
            "Err or panic from model construction / encode = 'encoding did not succeed' (allowed by the statement); counted per cell in labels '<cell>:enc_ok' / ':encode_refused' / ':model_refused' / ':*_panicked'".into(),
            "ParallelHuffmanEncoder does not expose its tree; the decoder gets HuffmanTree::from_data(training), which is how train() itself builds the shared tree".into(),
            "AdaptiveRans64Encoder / AdaptiveParallelEncoder have no decoder; the matching decoder is the variant reported by select_variant / select_optimal_encoding over the table the encoder builds (payload histogram resp. the flat table installed by new())".into(),
            "frequency tables passed to from_frequencies / Rans64Encoder::new sum to < 2^31 (no u32 overflow of the caller-supplied total)".into(),
            "DictionaryBuilder::build is given at most 600 training bytes (quadratic; the dictionary does not influence compress()); dictionary payloads <= 4 KiB".into(),
            "code lengths parsed from ContextualHuffmanEncoder::serialize() are used only to classify inputs (labels, signature class), never for a verdict".into(),
            "fse_blocks uses FseConfig{parallel_blocks: Some(4), block_size: 16..1000} (public fields, accepted by validate()); the presets only reach that container above 128-256 KiB".into(),
        ]
    }

    fn plans(&self, tier: Tier) -> Vec<Plan> {
        let q = |a: usize, b: usize| tier.pick(a, b);
        let max = q(8200, 65_536);
        let dmax = q(2100, 4100);
        let none: &'static [Content] = &[];
        let deep: &'static [Content] = &[Content::Fibonacci, Content::Geometric];
        let o1: &'static [Content] = &[Content::Order1Skew];
        let rep: &'static [Content] = &[Content::Text, Content::Periodic, Content::Runs];
        let same = || Just(Train::Same).boxed();
        let mut v = vec![];
        v.push(Plan::new("huff0", q(5000, 80_000), 0, case(payload(max, deep), train_any(max))));
        for o in 0..3 {
            v.push(Plan::new(&format!("ctx{o}"), q(if o == 2 { 1000 } else { 1500 }, 30_000), 0, case(payload(max, o1), if o == 0 { train_data(max) } else { train_ctx(max) })));
        }
        for n in [1, 2, 4, 8] {
            v.push(Plan::new(&format!("il_x{n}"), q(1500, 25_000), 0, case(payload(max, o1), train_ctx(q(16_384, 65_536)))));
        }
        for n in [1, 2, 4, 8] {
            v.push(Plan::new(&format!("rans_x{n}"), q(4000, 60_000), 0, case(payload(max, deep), train_any(max))));
        }
        v.push(Plan::new("rans_adaptive", q(2000, 40_000), 0, case(payload(max, none), same())));
        for p in FSE_PRESETS {
            v.push(Plan::new(&format!("fse_{p}"), q(1200, 25_000), q(100, 2500), case(payload(max, none), train_data(max))));
        }
        v.push(Plan::new("fse_blocks", q(600, 15_000), q(60, 1500), case(payload(max, none), same())));
        v.push(Plan::new("dict", q(800, 15_000), 0, case(payload(dmax, rep), train_data(dmax))));
        v.push(Plan::new("optdict", q(3000, 40_000), 0, case(payload(dmax, rep), train_data(dmax))));
        for n in [2, 4, 8] {
            v.push(Plan::new(&format!("par_huff_x{n}"), q(400, 10_000), 0, case(payload(max, none), train_data(max))));
        }
        v.push(Plan::new("par_adaptive", q(500, 12_000), 0, case(payload(max, none), same())));
        // the selector switches algorithm and stream count at 64 KiB and 1 MiB
        let large = (proptest::sample::select(ALL_CONTENT.to_vec()), prop_oneof![(1usize << 20) - 2..(1 << 20) + 3, (1usize << 20) - 2..(1 << 20) + 70_000, 65_534usize..65_539], any::<u64>())
            .prop_map(|(content, len, seed)| Payload::Gen { content, len, seed })
            .boxed();
        v.push(Plan::new("par_adaptive_large", q(16, 300), q(2, 30), case(large, same())));
        for (name, _) in SIMD_TIERS {
            v.push(Plan::new(&format!("simd_huff_{name}"), q(700, 12_000), q(70, 1200), case(payload(max, deep), train_data(max))));
        }
        v.push(Plan::new("tree_serde_huff", q(1200, 20_000), 0, case(payload(max, deep), train_any(max))));
        v.push(Plan::new("tree_serde_ctx", q(1200, 20_000), 0, case(payload(max, o1), train_ctx(max))));
        v.push(Plan::new("tree_serde_dict", q(400, 10_000), 0, case(payload(dmax, rep), train_data(dmax))));
        v
    }

    fn run(&self, case: &Value, ctx: &mut Ctx) {
        let c: Case = decode(case);
        let payload = match c.spike {
            Some((dom, singles)) => spike_bytes(c.p.bytes().len(), dom, singles),
            None => c.p.bytes(),
        };
        let cell = ctx.cell.clone();
        ctx.label(format!("content={}", if c.spike.is_some() { "Spike".to_string() } else { c.p.class() }));
        ctx.label(len_class(payload.len()));
        ctx.label(format!("train={}", train_name(&c.t)));
        ctx.label(match distinct(&payload) {
            0 => "nsym=0",
            1 => "nsym=1",
            2 => "nsym=2",
            3..=16 => "nsym=3-16",
            17..=255 => "nsym=17-255",
            _ => "nsym=256",
        });
        let model = build_model(&c.t, &c.p, &payload);
        let tclass = train_class(&c.t);
        match cell.as_str() {
            "huff0" => run_huff0(ctx, &payload, &model),
            "tree_serde_huff" => run_tree_serde_huff(ctx, &payload, &model),
            "ctx0" => run_ctx(ctx, &payload, &model_bytes(model), 0, tclass),
            "ctx1" => run_ctx(ctx, &payload, &model_bytes(model), 1, tclass),
            "ctx2" => run_ctx(ctx, &payload, &model_bytes(model), 2, tclass),
            "il_x1" => run_il(ctx, &payload, &model_bytes(model), 1),
            "il_x2" => run_il(ctx, &payload, &model_bytes(model), 2),
            "il_x4" => run_il(ctx, &payload, &model_bytes(model), 4),
            "il_x8" => run_il(ctx, &payload, &model_bytes(model), 8),
            "rans_x1" => run_rans::<ParallelX1>(ctx, &payload, &model_freqs(&model), tclass),
            "rans_x2" => run_rans::<ParallelX2>(ctx, &payload, &model_freqs(&model), tclass),
            "rans_x4" => run_rans::<ParallelX4>(ctx, &payload, &model_freqs(&model), tclass),
            "rans_x8" => run_rans::<ParallelX8>(ctx, &payload, &model_freqs(&model), tclass),
            "rans_adaptive" => run_rans_adaptive(ctx, &payload),
            "fse_blocks" => run_fse_blocks(ctx, &payload, c.aux),
            "dict" => run_dict(ctx, &payload, &model_bytes(model), c.aux, tclass),
            "optdict" => run_optdict(ctx, &payload, &model_bytes(model), c.aux, tclass),
            "par_huff_x2" => run_par_huff::<ParallelX2Variant>(ctx, &payload, &model_bytes(model), c.aux, !matches!(c.t, Train::Same) || c.aux & 16 != 0),
            "par_huff_x4" => run_par_huff::<ParallelX4Variant>(ctx, &payload, &model_bytes(model), c.aux, !matches!(c.t, Train::Same) || c.aux & 16 != 0),
            "par_huff_x8" => run_par_huff::<ParallelX8Variant>(ctx, &payload, &model_bytes(model), c.aux, !matches!(c.t, Train::Same) || c.aux & 16 != 0),
            "par_adaptive" | "par_adaptive_large" => run_par_adaptive(ctx, &payload, c.aux),
            "tree_serde_ctx" => run_tree_serde_ctx(ctx, &payload, &model_bytes(model), c.aux),
            "tree_serde_dict" => run_tree_serde_dict(ctx, &payload, &model_bytes(model), c.aux),
            other => {
                if let Some(p) = other.strip_prefix("fse_") {
                    run_fse(ctx, &payload, &model_bytes(model), &c.t, p, c.aux);
                } else if let Some(t) = other.strip_prefix("simd_huff_") {
                    match SIMD_TIERS.iter().find(|(n, _)| *n == t) {
                        Some((_, tier)) => run_simd_huff(ctx, &payload, &model_bytes(model), *tier, c.aux),
                        None => ctx.skip(format!("unknown cell {other}")),
                    }
                } else {
                    ctx.skip(format!("unknown cell {other}"));
                }
            }
        }
    }
}
