//! C17 — caches stay within capacity, evict least-recently-used, never serve stale data.
//!
//! Oracles
//! * `lru_map_*`, `concurrent_lru_{hash,thread}_*`, `concurrent_lru_rr_s1`: an exact LRU model
//!   (ordered list per shard).  Every return value, `len`, the eviction-callback sequence of
//!   every single operation and a final sweep over the whole key space are compared with it.
//!   For hash sharding the shard of a key is *learned* from the `shard_sizes()` delta (or from
//!   the victim reported by the callback) the first time the key is put.
//! * `concurrent_lru_rr_multi_*` and `concurrent_lru_mt`: an order-free map model in which
//!   evictions are learned from the callback log (schedule independent): a value returned for
//!   `k` must be the most recent value put for `k`; `None` needs a remove/clear or a callback
//!   for exactly that entry; every put value has exactly one fate.
//! * `page_cache_*`: files under `ctx.scratch` whose byte at offset `o` is a keyed hash of
//!   `(file, page-version, o)`; every returned buffer is compared with the file range; buffers
//!   are kept alive across later evictions and re-verified; pages rewritten by the harness may
//!   be served old until they are invalidated, and must be new afterwards.
//! * `cached_store_*`: twin `MemoryBlobStore`.
//! * `fsa_cache`: map model keyed by the state ids the cache hands out.

use crate::engine::{decode, mix, Ctx, Plan, Prop, Tier};
use crate::gen::{idx, Bytes};
use proptest::prelude::*;
use serde::{Deserialize, Serialize};
use serde_json::Value;
use std::collections::{HashMap, HashSet};
use std::io::{Seek, SeekFrom, Write};
use std::sync::atomic::{AtomicBool, AtomicU64, Ordering};
use std::sync::{Arc, Barrier, Mutex};
use zipora::blob_store::cached_store::CacheWriteStrategy;
use zipora::blob_store::{BlobStore, CachedBlobStore, MemoryBlobStore};
use zipora::cache::{BufferPool, CacheBuffer, FileId, LruPageCache, PageCacheConfig, SingleLruPageCache};
use zipora::containers::specialized::{
    ConcurrentLruMap, ConcurrentLruMapConfig, EvictionCallback, LoadBalancingStrategy, LruMap, LruMapConfig,
};
use zipora::fsa::{CacheStrategy, FsaCache, FsaCacheConfig, ZeroPathData};

pub struct P;

const PAGE: u64 = 4096;

// ---------------------------------------------------------------------------------------
// case types
// ---------------------------------------------------------------------------------------

#[derive(Clone, Debug, Serialize, Deserialize)]
pub enum MapOp {
    /// get of the entry at position idx(i, len) of the model's recency order (0 = least recently
    /// used): a model-directed hit that changes the next victim
    GetAt(u16),
    Get(u16),
    Put(u16),
    Remove(u16),
    Contains(u16),
    Clear,
    Len,
}

#[derive(Clone, Debug, Serialize, Deserialize)]
pub enum MtOp {
    Get { shared: bool, k: u16 },
    Put { shared: bool, k: u16 },
    Remove { shared: bool, k: u16 },
    Len,
}

/// offset of a page-cache request, relative to the file it is applied to
#[derive(Clone, Debug, Serialize, Deserialize)]
pub enum Off {
    /// `page * 4096 + d`
    Page { page: u16, d: i8 },
    /// `file_size + d`
    Eof { d: i8 },
    /// uniform over `0 .. file_size + 2 pages`
    Any(u16),
}

#[derive(Clone, Debug, Serialize, Deserialize)]
pub enum Len {
    Zero,
    Small(u8),
    /// `pages * 4096 + d`
    Pages { pages: u8, d: i8 },
    /// up to the end of the file, `+ d`
    ToEof { d: i8 },
}

#[derive(Clone, Debug, Serialize, Deserialize)]
pub struct Req {
    pub f: u8,
    pub off: Off,
    pub len: Len,
}

#[derive(Clone, Debug, Serialize, Deserialize)]
pub enum PageOp {
    Read { r: Req, keep: bool, alt: bool },
    ReadBatch(Vec<Req>),
    Prefetch(Req),
    ReadWithPrefetch { r: Req, ahead: Len },
    InvalidatePage { f: u8, page: u16 },
    InvalidateRange(Req),
    /// the harness rewrites one page of the file on disk (same size, new keyed content)
    Modify { f: u8, page: u16 },
    MarkDirty { f: u8, page: u16 },
    Flush { f: u8 },
    Close { f: u8 },
    Reopen { f: u8 },
    Recheck,
    DropKept(u16),
    /// scenario: rewrite a page on disk, invalidate it (page or range), read it back
    Refresh { f: u8, page: u16, via_range: bool },
}

#[derive(Clone, Debug, Serialize, Deserialize)]
pub struct FileSpec {
    pub full_pages: u8,
    pub tail: u16,
}

#[derive(Clone, Debug, Serialize, Deserialize)]
pub enum StoreOp {
    Put { len: u16, seed: u32 },
    Get(u16),
    Remove(u16),
    Contains(u16),
    Size(u16),
    Len,
    Prefetch { off: u16, len: u16 },
    Flush,
    SetStrategy(u8),
    CacheEnabled(bool),
    GetUnknown(u32),
    /// read the real file that shares the page cache (shared-cache variant only)
    ForeignRead { page: u8 },
}

#[derive(Clone, Debug, Serialize, Deserialize)]
pub enum FsaOp {
    Cache { parent: u32, child_base: u32, terminal: bool },
    Get(u16),
    Remove(u16),
    AddZeroPath { i: u16, segs: Vec<Bytes> },
    GetZeroPath(u16),
    Probe(u16),
    Clear,
}

#[derive(Clone, Debug, Serialize, Deserialize)]
pub enum Case {
    Map { cap: u8, nkeys: u8, ops: Vec<MapOp> },
    Mt { shards: u8, strat: u8, cap: u8, npriv: u8, nshared: u8, progs: Vec<Vec<MtOp>> },
    Page { shards: u8, cap_pages: u8, seed: u64, files: Vec<FileSpec>, ops: Vec<PageOp> },
    Store { cap_pages: u8, shared_cache: bool, seed: u64, ops: Vec<StoreOp> },
    Fsa { max_states: u8, strategy: u8, ops: Vec<FsaOp> },
}

// ---------------------------------------------------------------------------------------
// cells
// ---------------------------------------------------------------------------------------

#[derive(Clone, Copy, PartialEq, Eq, Debug)]
enum Kind {
    /// plain LruMap with the given config preset
    Map(u8),
    /// ConcurrentLruMap, single-threaded history: (strategy, shards)
    Conc(u8, u8),
    Mt,
    /// LruPageCache with config preset
    Page(u8),
    PageSingle,
    Store(u8),
    Fsa,
}

struct Cell {
    name: &'static str,
    kind: Kind,
    quick: usize,
    b_permille: usize,
}

const CELLS: &[Cell] = &[
    Cell { name: "lru_map_default", kind: Kind::Map(0), quick: 20000, b_permille: 20 },
    Cell { name: "lru_map_perf", kind: Kind::Map(1), quick: 15000, b_permille: 20 },
    Cell { name: "lru_map_mem", kind: Kind::Map(2), quick: 15000, b_permille: 20 },
    Cell { name: "lru_map_sec", kind: Kind::Map(3), quick: 15000, b_permille: 20 },
    Cell { name: "concurrent_lru_hash_s1", kind: Kind::Conc(0, 1), quick: 7500, b_permille: 20 },
    Cell { name: "concurrent_lru_hash_s2", kind: Kind::Conc(0, 2), quick: 10000, b_permille: 20 },
    Cell { name: "concurrent_lru_hash_s4", kind: Kind::Conc(0, 4), quick: 10000, b_permille: 20 },
    Cell { name: "concurrent_lru_rr_s1", kind: Kind::Conc(1, 1), quick: 5000, b_permille: 0 },
    Cell { name: "concurrent_lru_rr_multi_s2", kind: Kind::Conc(1, 2), quick: 4000, b_permille: 0 },
    Cell { name: "concurrent_lru_rr_multi_s4", kind: Kind::Conc(1, 4), quick: 4000, b_permille: 0 },
    Cell { name: "concurrent_lru_thread_s1", kind: Kind::Conc(2, 1), quick: 4000, b_permille: 0 },
    Cell { name: "concurrent_lru_thread_s2", kind: Kind::Conc(2, 2), quick: 4000, b_permille: 0 },
    Cell { name: "concurrent_lru_thread_s4", kind: Kind::Conc(2, 4), quick: 4000, b_permille: 0 },
    Cell { name: "concurrent_lru_mt", kind: Kind::Mt, quick: 600, b_permille: 100 },
    Cell { name: "page_cache_balanced", kind: Kind::Page(0), quick: 5000, b_permille: 100 },
    Cell { name: "page_cache_perf", kind: Kind::Page(1), quick: 3000, b_permille: 100 },
    Cell { name: "page_cache_mem", kind: Kind::Page(2), quick: 3000, b_permille: 100 },
    Cell { name: "page_cache_sec", kind: Kind::Page(3), quick: 3000, b_permille: 100 },
    Cell { name: "page_cache_single", kind: Kind::PageSingle, quick: 5000, b_permille: 100 },
    Cell { name: "cached_store_through", kind: Kind::Store(0), quick: 2000, b_permille: 100 },
    Cell { name: "cached_store_back", kind: Kind::Store(1), quick: 1500, b_permille: 100 },
    Cell { name: "cached_store_around", kind: Kind::Store(2), quick: 1500, b_permille: 100 },
    Cell { name: "fsa_cache", kind: Kind::Fsa, quick: 7500, b_permille: 50 },
];

// ---------------------------------------------------------------------------------------
// generators
// ---------------------------------------------------------------------------------------

fn map_op() -> BoxedStrategy<MapOp> {
    prop_oneof![
        80 => any::<u16>().prop_map(MapOp::Put),
        44 => any::<u16>().prop_map(MapOp::Get),
        10 => prop_oneof![Just(0u16), any::<u16>()].prop_map(MapOp::GetAt),
        16 => any::<u16>().prop_map(MapOp::Remove),
        16 => any::<u16>().prop_map(MapOp::Contains),
        1 => Just(MapOp::Clear),
        8 => Just(MapOp::Len),
    ]
    .boxed()
}

fn map_case(max_ops: usize, shards: u8) -> BoxedStrategy<Case> {
    // capacity 1..=8 per shard, key space = shards * (capacity + 0..=5) clamped to 2..=12 per
    // shard: eviction on nearly every put of a new key
    let max_cap = if shards >= 4 { 4u8 } else { 8u8 };
    let shape = prop_oneof![
        6 => (1u8..=max_cap, 1u8..=5),
        1 => (1u8..=max_cap, Just(0u8)),
        2 => (Just(1u8), 1u8..=3),
    ];
    (shape, prop_oneof![3 => 0usize..=max_ops, 1 => 0usize..=12])
        .prop_flat_map(move |((cap, extra), n)| {
            let nkeys = ((cap + extra).clamp(2, 12) as usize * shards.max(1) as usize).min(48) as u8;
            proptest::collection::vec(map_op(), n).prop_map(move |ops| Case::Map { cap, nkeys, ops })
        })
        .boxed()
}

fn mt_op() -> BoxedStrategy<MtOp> {
    let sh = prop_oneof![2 => Just(false), 1 => Just(true)];
    prop_oneof![
        45 => (sh.clone(), any::<u16>()).prop_map(|(shared, k)| MtOp::Put { shared, k }),
        35 => (sh.clone(), any::<u16>()).prop_map(|(shared, k)| MtOp::Get { shared, k }),
        10 => (sh, any::<u16>()).prop_map(|(shared, k)| MtOp::Remove { shared, k }),
        3 => Just(MtOp::Len),
    ]
    .boxed()
}

fn mt_case(max_ops: usize) -> BoxedStrategy<Case> {
    (
        proptest::sample::select(vec![1u8, 2, 4]),
        prop_oneof![3 => Just(0u8), 1 => Just(2u8)],
        1u8..=4,
        1u8..=3,
        0u8..=3,
        2usize..=4,
    )
        .prop_flat_map(move |(shards, strat, cap, npriv, nshared, nthreads)| {
            proptest::collection::vec(proptest::collection::vec(mt_op(), 0..=max_ops), nthreads)
                .prop_map(move |progs| Case::Mt { shards, strat, cap, npriv, nshared, progs })
        })
        .boxed()
}

fn small_d() -> BoxedStrategy<i8> {
    prop_oneof![3 => Just(0i8), 2 => -2i8..=2, 1 => any::<i8>()].boxed()
}

fn off() -> BoxedStrategy<Off> {
    prop_oneof![
        // hot region: the first few pages, so that pages are revisited after eviction
        5 => (0u16..8, small_d()).prop_map(|(page, d)| Off::Page { page, d }),
        2 => (0u16..48, small_d()).prop_map(|(page, d)| Off::Page { page, d }),
        2 => small_d().prop_map(|d| Off::Eof { d }),
        2 => any::<u16>().prop_map(Off::Any),
    ]
    .boxed()
}

fn len() -> BoxedStrategy<Len> {
    prop_oneof![
        1 => Just(Len::Zero),
        3 => any::<u8>().prop_map(Len::Small),
        5 => (0u8..=3, small_d()).prop_map(|(pages, d)| Len::Pages { pages, d }),
        1 => small_d().prop_map(|d| Len::ToEof { d }),
    ]
    .boxed()
}

fn req(nfiles: u8) -> BoxedStrategy<Req> {
    (0..nfiles, off(), len()).prop_map(|(f, off, len)| Req { f, off, len }).boxed()
}

fn page_op(nfiles: u8) -> BoxedStrategy<PageOp> {
    let f = 0..nfiles;
    let pg = prop_oneof![4 => 0u16..8, 1 => 0u16..48];
    prop_oneof![
        40 => (req(nfiles), any::<bool>(), any::<bool>()).prop_map(|(r, keep, alt)| PageOp::Read { r, keep, alt }),
        6 => proptest::collection::vec(req(nfiles), 0..4).prop_map(PageOp::ReadBatch),
        8 => req(nfiles).prop_map(PageOp::Prefetch),
        6 => (req(nfiles), len()).prop_map(|(r, ahead)| PageOp::ReadWithPrefetch { r, ahead }),
        8 => (f.clone(), pg.clone()).prop_map(|(f, page)| PageOp::InvalidatePage { f, page }),
        5 => req(nfiles).prop_map(PageOp::InvalidateRange),
        9 => (f.clone(), pg.clone()).prop_map(|(f, page)| PageOp::Modify { f, page }),
        2 => (f.clone(), pg).prop_map(|(f, page)| PageOp::MarkDirty { f, page }),
        2 => f.clone().prop_map(|f| PageOp::Flush { f }),
        1 => f.clone().prop_map(|f| PageOp::Close { f }),
        3 => f.prop_map(|f| PageOp::Reopen { f }),
        3 => Just(PageOp::Recheck),
        2 => any::<u16>().prop_map(PageOp::DropKept),
        5 => (0..nfiles, prop_oneof![4 => 0u16..8, 1 => 0u16..48], any::<bool>()).prop_map(|(f, page, via_range)| PageOp::Refresh { f, page, via_range }),
    ]
    .boxed()
}

fn page_case(max_ops: usize, max_pages: u8) -> BoxedStrategy<Case> {
    let file = (
        prop_oneof![3 => 2u8..=8, 2 => 2u8..=max_pages],
        prop_oneof![2 => Just(0u16), 1 => Just(1u16), 1 => Just(4095u16), 3 => 1u16..4096],
    )
        .prop_map(|(full_pages, tail)| FileSpec { full_pages, tail });
    (1u8..=3, proptest::sample::select(vec![1u8, 2, 4, 8]), prop_oneof![1 => Just(1u8), 6 => 2u8..=8], any::<u64>())
        .prop_flat_map(move |(nfiles, shards, cap_pages, seed)| {
            (proptest::collection::vec(file.clone(), nfiles as usize), proptest::collection::vec(page_op(nfiles), 0..=max_ops))
                .prop_map(move |(files, ops)| Case::Page { shards, cap_pages, seed, files, ops })
        })
        .boxed()
}

fn store_op() -> BoxedStrategy<StoreOp> {
    let blob_len = prop_oneof![
        1 => Just(0u16),
        3 => 1u16..64,
        3 => prop_oneof![Just(4095u16), Just(4096), Just(4097), Just(8192), Just(8191)],
        2 => 0u16..12_000,
    ];
    prop_oneof![
        30 => (blob_len, any::<u32>()).prop_map(|(len, seed)| StoreOp::Put { len, seed }),
        30 => any::<u16>().prop_map(StoreOp::Get),
        10 => any::<u16>().prop_map(StoreOp::Remove),
        5 => any::<u16>().prop_map(StoreOp::Contains),
        5 => any::<u16>().prop_map(StoreOp::Size),
        3 => Just(StoreOp::Len),
        4 => (any::<u16>(), any::<u16>()).prop_map(|(off, len)| StoreOp::Prefetch { off, len }),
        2 => Just(StoreOp::Flush),
        3 => (0u8..3).prop_map(StoreOp::SetStrategy),
        3 => any::<bool>().prop_map(StoreOp::CacheEnabled),
        3 => prop_oneof![0u32..40, any::<u32>()].prop_map(StoreOp::GetUnknown),
        4 => (0u8..6).prop_map(|page| StoreOp::ForeignRead { page }),
    ]
    .boxed()
}

fn store_case(max_ops: usize) -> BoxedStrategy<Case> {
    (1u8..=4, any::<bool>(), any::<u64>(), proptest::collection::vec(store_op(), 0..=max_ops))
        .prop_map(|(cap_pages, shared_cache, seed, ops)| Case::Store { cap_pages, shared_cache, seed, ops })
        .boxed()
}

fn fsa_op() -> BoxedStrategy<FsaOp> {
    let seg = proptest::collection::vec(any::<u8>(), 0..6).prop_map(Bytes);
    prop_oneof![
        40 => (0u32..(1 << 24), any::<u32>(), any::<bool>()).prop_map(|(parent, child_base, terminal)| FsaOp::Cache { parent, child_base, terminal }),
        20 => any::<u16>().prop_map(FsaOp::Get),
        10 => any::<u16>().prop_map(FsaOp::Remove),
        10 => (any::<u16>(), proptest::collection::vec(seg, 0..3)).prop_map(|(i, segs)| FsaOp::AddZeroPath { i, segs }),
        10 => any::<u16>().prop_map(FsaOp::GetZeroPath),
        5 => any::<u16>().prop_map(FsaOp::Probe),
        2 => Just(FsaOp::Clear),
    ]
    .boxed()
}

fn fsa_case(max_ops: usize) -> BoxedStrategy<Case> {
    (prop_oneof![2 => 1u8..=4, 2 => 5u8..=12, 1 => 20u8..=30], 0u8..3, proptest::collection::vec(fsa_op(), 0..=max_ops))
        .prop_map(|(max_states, strategy, ops)| Case::Fsa { max_states, strategy, ops })
        .boxed()
}

// ---------------------------------------------------------------------------------------
// LRU maps: recording callback, API adaptor, models
// ---------------------------------------------------------------------------------------

#[derive(Clone)]
struct Rec(Arc<Mutex<Vec<(u32, u64)>>>);

impl Rec {
    fn new() -> Rec {
        Rec(Arc::new(Mutex::new(Vec::new())))
    }
    fn drain(&self) -> Vec<(u32, u64)> {
        std::mem::take(&mut *self.0.lock().unwrap_or_else(|e| e.into_inner()))
    }
    fn len(&self) -> usize {
        self.0.lock().unwrap_or_else(|e| e.into_inner()).len()
    }
    fn snapshot(&self) -> Vec<(u32, u64)> {
        self.0.lock().unwrap_or_else(|e| e.into_inner()).clone()
    }
}

impl EvictionCallback<u32, u64> for Rec {
    fn on_evict(&self, key: &u32, value: &u64) {
        self.0.lock().unwrap_or_else(|e| e.into_inner()).push((*key, *value));
    }
}

trait MapApi: Send + Sync {
    fn get(&self, k: u32) -> Option<u64>;
    fn put(&self, k: u32, v: u64) -> Result<Option<u64>, String>;
    fn remove(&self, k: u32) -> Option<u64>;
    fn contains(&self, k: u32) -> bool;
    fn clear(&self) -> Result<(), String>;
    fn len(&self) -> usize;
    fn capacity(&self) -> usize;
    fn shard_sizes(&self) -> Vec<usize>;
}

impl MapApi for LruMap<u32, u64, Rec> {
    fn get(&self, k: u32) -> Option<u64> {
        LruMap::get(self, &k)
    }
    fn put(&self, k: u32, v: u64) -> Result<Option<u64>, String> {
        LruMap::put(self, k, v).map_err(|e| e.to_string())
    }
    fn remove(&self, k: u32) -> Option<u64> {
        LruMap::remove(self, &k)
    }
    fn contains(&self, k: u32) -> bool {
        self.contains_key(&k)
    }
    fn clear(&self) -> Result<(), String> {
        LruMap::clear(self).map_err(|e| e.to_string())
    }
    fn len(&self) -> usize {
        LruMap::len(self)
    }
    fn capacity(&self) -> usize {
        LruMap::capacity(self)
    }
    fn shard_sizes(&self) -> Vec<usize> {
        vec![LruMap::len(self)]
    }
}

impl MapApi for ConcurrentLruMap<u32, u64, Rec> {
    fn get(&self, k: u32) -> Option<u64> {
        ConcurrentLruMap::get(self, &k)
    }
    fn put(&self, k: u32, v: u64) -> Result<Option<u64>, String> {
        ConcurrentLruMap::put(self, k, v).map_err(|e| e.to_string())
    }
    fn remove(&self, k: u32) -> Option<u64> {
        ConcurrentLruMap::remove(self, &k)
    }
    fn contains(&self, k: u32) -> bool {
        self.contains_key(&k)
    }
    fn clear(&self) -> Result<(), String> {
        ConcurrentLruMap::clear(self).map_err(|e| e.to_string())
    }
    fn len(&self) -> usize {
        ConcurrentLruMap::len(self)
    }
    fn capacity(&self) -> usize {
        ConcurrentLruMap::capacity(self)
    }
    fn shard_sizes(&self) -> Vec<usize> {
        ConcurrentLruMap::shard_sizes(self)
    }
}

fn lru_config(preset: u8, capacity: usize) -> LruMapConfig {
    let base = match preset {
        1 => LruMapConfig::performance_optimized(),
        2 => LruMapConfig::memory_optimized(),
        3 => LruMapConfig::security_optimized(),
        _ => LruMapConfig::default(),
    };
    LruMapConfig { capacity, ..base }
}

fn strategy_of(s: u8) -> LoadBalancingStrategy {
    match s {
        1 => LoadBalancingStrategy::RoundRobin,
        2 => LoadBalancingStrategy::ThreadAffinity,
        _ => LoadBalancingStrategy::Hash,
    }
}

/// value stored by the put at history step `step` for key `k`: unique per put, never 0
/// (0 is `V::default()`, the content of an unused node), and it names its key.
fn val(thread: usize, step: usize, k: u32) -> u64 {
    ((thread as u64 + 1) << 52) | ((step as u64 + 1) << 32) | k as u64
}
fn val_key(v: u64) -> u32 {
    v as u32
}

/// exact LRU list: index 0 = least recently accessed, last = most recently accessed
#[derive(Clone, Default)]
struct LruModel {
    cap: usize,
    order: Vec<(u32, u64)>,
    evictions: usize,
    /// a get hit the then-LRU entry after at least one eviction (the next victim changed)
    victim_changed: bool,
    nontrivial: bool,
}

impl LruModel {
    fn pos(&self, k: u32) -> Option<usize> {
        self.order.iter().position(|e| e.0 == k)
    }
    fn touch(&mut self, p: usize) {
        let e = self.order.remove(p);
        self.order.push(e);
    }
}

fn hist_class(cleared: bool, removed: bool) -> &'static str {
    if cleared {
        "after_clear"
    } else if removed {
        "after_remove"
    } else {
        "plain"
    }
}

/// Strict interpreter: exact LRU model per shard.
/// `learn`: shards > 1 and the key -> shard function is learned online; otherwise one model.
fn run_strict(ctx: &mut Ctx, api: &dyn MapApi, rec: &Rec, shards: usize, cap: usize, learn: bool, total_cap: usize, nkeys: usize, ops: &[MapOp]) {
    let nmodels = if learn { shards } else { 1 };
    let mut models: Vec<LruModel> = (0..nmodels).map(|_| LruModel { cap, ..Default::default() }).collect();
    let mut shard_of: HashMap<u32, usize> = HashMap::new();
    let (mut cleared, mut removed) = (false, false);
    let mut put_errs = 0usize;
    ctx.label(format!("cap={cap}"));
    if let Some(c) = ctx.no_panic("capacity", || api.capacity()) {
        ctx.eq("capacity", "", &c, &total_cap);
    }
    for (step, op) in ops.iter().enumerate() {
        if ctx.saturated() {
            break;
        }
        let cls = hist_class(cleared, removed);
        // model-directed get: resolve the position to a key, then it is an ordinary get
        let resolved;
        let op = if let MapOp::GetAt(i) = op {
            let all: Vec<u32> = models.iter().flat_map(|m| m.order.iter().map(|e| e.0)).collect();
            if all.is_empty() {
                continue;
            }
            // position within the shard-wise concatenation; 0 = the LRU entry of the first non-empty shard
            let k = all[idx(*i, all.len())];
            resolved = MapOp::Get(((k as u64 * 65536 + 32768) / nkeys as u64).min(65535) as u16);
            &resolved
        } else {
            op
        };
        match op {
            MapOp::GetAt(_) => {}
            MapOp::Put(i) => {
                let k = idx(*i, nkeys) as u32;
                let v = val(0, step, k);
                let before = if learn && !shard_of.contains_key(&k) { ctx.no_panic("shard_sizes", || api.shard_sizes()) } else { None };
                let Some(r) = ctx.no_panic("put", || api.put(k, v)) else { return };
                let cbs = rec.drain();
                let s = if !learn {
                    0
                } else if let Some(s) = shard_of.get(&k) {
                    *s
                } else {
                    // learn the shard of k from what this put did
                    let after = ctx.no_panic("shard_sizes", || api.shard_sizes()).unwrap_or_default();
                    let before = before.unwrap_or_default();
                    let grown: Vec<usize> = (0..after.len().min(before.len())).filter(|&j| after[j] == before[j] + 1).collect();
                    let same = before == after;
                    let learned = if r.is_err() {
                        None
                    } else if grown.len() == 1 && cbs.is_empty() && (0..after.len()).all(|j| j == grown[0] || after[j] == before[j]) {
                        Some(grown[0])
                    } else if same && cbs.len() == 1 {
                        shard_of.get(&cbs[0].0).copied()
                    } else {
                        None
                    };
                    match learned {
                        Some(s) if s < models.len() => {
                            shard_of.insert(k, s);
                            s
                        }
                        _ => {
                            if let Err(e) = &r {
                                put_errs += 1;
                                ctx.fail("put", "err", cls, format!("step {step}: put({k}) of a new key failed: {e}; shard sizes {before:?}, capacity per shard {cap}"));
                                continue;
                            }
                            ctx.fail(
                                "shard_assignment",
                                "mismatch",
                                cls,
                                format!("step {step}: put({k}) of a never-seen key: shard sizes {before:?} -> {after:?}, callbacks {cbs:?}: neither one shard grew by one nor one known entry was evicted"),
                            );
                            return;
                        }
                    }
                };
                let m = &mut models[s];
                let snapshot = m.order.clone();
                let (exp_ret, exp_cb): (Option<u64>, Vec<(u32, u64)>) = if let Some(p) = m.pos(k) {
                    let old = m.order[p].1;
                    m.order[p].1 = v;
                    m.touch(p);
                    (Some(old), vec![])
                } else {
                    let mut cb = vec![];
                    if m.order.len() >= m.cap {
                        cb.push(m.order.remove(0));
                        m.evictions += 1;
                        if m.victim_changed {
                            m.nontrivial = true;
                        }
                    }
                    m.order.push((k, v));
                    (None, cb)
                };
                match &r {
                    Ok(ret) => {
                        if !ctx.eq("put", cls, ret, &exp_ret) {
                            // resynchronise nothing: the entry now holds v either way
                        }
                    }
                    Err(e) => {
                        put_errs += 1;
                        let full = snapshot.len() >= cap;
                        ctx.fail(
                            "put",
                            "err",
                            cls,
                            format!("step {step}: put({k}) failed: {e}; model holds {} of {cap} entries{}", snapshot.len(), if full { " (an eviction would make room)" } else { "" }),
                        );
                        // the map kept its old content (minus whatever the callbacks reported)
                        m.order = snapshot.clone();
                        m.order.retain(|e| !cbs.contains(e));
                    }
                }
                if !ctx.eq("evict_callback", cls, &cbs, &exp_cb) && r.is_ok() {
                    // resynchronise: drop what the implementation says it evicted
                    let m = &mut models[s];
                    m.order = snapshot;
                    for e in &cbs {
                        for mm in models.iter_mut() {
                            mm.order.retain(|x| x != e);
                        }
                    }
                    let m = &mut models[s];
                    if let Some(p) = m.pos(k) {
                        m.order[p].1 = v;
                        m.touch(p);
                    } else {
                        m.order.push((k, v));
                    }
                }
                // an evicted entry must not be retrievable any more (contains_key is not an access)
                for (ek, _) in &cbs {
                    if *ek != k {
                        if let Some(c) = ctx.no_panic("contains_key", || api.contains(*ek)) {
                            ctx.ensure("evict_callback", "victim_still_present", !c, || format!("step {step}: callback reported ({ek}, ..) evicted by put({k}) but contains_key({ek}) is still true"));
                        }
                    }
                }
            }
            MapOp::Get(i) => {
                let k = idx(*i, nkeys) as u32;
                let Some(r) = ctx.no_panic("get", || api.get(k)) else { return };
                let exp = match shard_of.get(&k).copied().or(if learn { None } else { Some(0) }) {
                    Some(s) => {
                        let m = &mut models[s];
                        match m.pos(k) {
                            Some(p) => {
                                let v = m.order[p].1;
                                if p == 0 && m.order.len() >= 2 && m.evictions >= 1 {
                                    m.victim_changed = true;
                                }
                                m.touch(p);
                                Some(v)
                            }
                            None => None,
                        }
                    }
                    None => None,
                };
                if !ctx.eq("get", cls, &r, &exp) {
                    resync_key(&mut models, &shard_of, learn, k, r);
                }
            }
            MapOp::Remove(i) => {
                let k = idx(*i, nkeys) as u32;
                let Some(r) = ctx.no_panic("remove", || api.remove(k)) else { return };
                removed = true;
                let exp = match shard_of.get(&k).copied().or(if learn { None } else { Some(0) }) {
                    Some(s) => {
                        let m = &mut models[s];
                        m.pos(k).map(|p| m.order.remove(p).1)
                    }
                    None => None,
                };
                ctx.eq("remove", cls, &r, &exp);
            }
            MapOp::Contains(i) => {
                let k = idx(*i, nkeys) as u32;
                let Some(r) = ctx.no_panic("contains_key", || api.contains(k)) else { return };
                let exp = models.iter().any(|m| m.pos(k).is_some());
                ctx.eq("contains_key", cls, &r, &exp);
            }
            MapOp::Clear => {
                let Some(r) = ctx.no_panic("clear", || api.clear()) else { return };
                cleared = true;
                if let Err(e) = r {
                    ctx.fail("clear", "err", cls, e);
                }
                // clear is not an eviction "to make room"; a callback here is tolerated only for
                // an entry that was present (each at most once)
                let mut present: Vec<(u32, u64)> = models.iter().flat_map(|m| m.order.iter().copied()).collect();
                for e in rec.drain() {
                    match present.iter().position(|x| *x == e) {
                        Some(p) => {
                            present.remove(p);
                        }
                        None => ctx.fail("evict_callback", "mismatch", "during_clear", format!("step {step}: callback {e:?} during clear() for an entry that was not in the map")),
                    }
                }
                for m in models.iter_mut() {
                    m.order.clear();
                }
            }
            MapOp::Len => {}
        }
        // unexpected callbacks of operations that must not evict
        if !matches!(op, MapOp::Put(_) | MapOp::Clear) {
            let cbs = rec.drain();
            ctx.ensure("evict_callback", "by_non_put", cbs.is_empty(), || format!("step {step}: {op:?} invoked the eviction callback: {cbs:?}"));
            for e in &cbs {
                for mm in models.iter_mut() {
                    mm.order.retain(|x| x != e);
                }
            }
        }
        // len after every step, both the exact value and the capacity bound
        if let Some(l) = ctx.no_panic("len", || api.len()) {
            let want: usize = models.iter().map(|m| m.order.len()).sum();
            ctx.eq("len", hist_class(cleared, removed), &l, &want);
            ctx.ensure("capacity_bound", "", l <= total_cap, || format!("step {step}: len() = {l} exceeds the configured capacity {total_cap}"));
        }
        if learn {
            if let Some(sz) = ctx.no_panic("shard_sizes", || api.shard_sizes()) {
                let want: Vec<usize> = models.iter().map(|m| m.order.len()).collect();
                ctx.eq("shard_sizes", hist_class(cleared, removed), &sz, &want);
                ctx.ensure("capacity_bound", "per_shard", sz.iter().all(|&x| x <= cap), || format!("step {step}: shard sizes {sz:?} exceed the per-shard capacity {cap}"));
            }
        }
    }
    // final sweep over the whole key space, both directions (gets only: no eviction can follow)
    let cls = hist_class(cleared, removed);
    for k in 0..nkeys as u32 {
        let want = models.iter().find_map(|m| m.pos(k).map(|p| m.order[p].1));
        if let Some(c) = ctx.no_panic("contains_key", || api.contains(k)) {
            ctx.eq("contains_key", cls, &c, &want.is_some());
        }
        if let Some(r) = ctx.no_panic("get", || api.get(k)) {
            ctx.eq("get", cls, &r, &want);
        }
    }
    let ev: usize = models.iter().map(|m| m.evictions).sum();
    ctx.label(match ev {
        0 => "evictions:0",
        1..=3 => "evictions:1-3",
        4..=15 => "evictions:4-15",
        _ => "evictions:16+",
    });
    if cleared {
        ctx.label("history:clear");
    }
    if removed {
        ctx.label("history:remove");
    }
    if put_errs > 0 {
        ctx.label("put_refused");
    }
    if learn {
        ctx.label(format!("shards_learned:{}", shard_of.values().collect::<HashSet<_>>().len()));
    }
    if models.iter().any(|m| m.nontrivial) {
        ctx.nontrivial();
    }
}

fn resync_key(models: &mut [LruModel], shard_of: &HashMap<u32, usize>, learn: bool, k: u32, got: Option<u64>) {
    let s = if learn { shard_of.get(&k).copied() } else { Some(0) };
    let Some(s) = s else { return };
    let m = &mut models[s];
    match (m.pos(k), got) {
        (Some(p), Some(v)) => m.order[p].1 = v,
        (Some(p), None) => {
            m.order.remove(p);
        }
        (None, Some(v)) => m.order.push((k, v)),
        (None, None) => {}
    }
}

#[derive(Clone, Copy, PartialEq, Debug)]
enum KeyState {
    Absent,
    Present(u64),
    Unknown,
}

/// Order-free interpreter: evictions are learned from the callback log instead of predicted.
fn run_weak(ctx: &mut Ctx, api: &dyn MapApi, rec: &Rec, total_cap: usize, nkeys: usize, ops: &[MapOp]) {
    let mut st: Vec<KeyState> = vec![KeyState::Absent; nkeys];
    let mut evictions = 0usize;
    let mut hit_after_eviction = false;
    let mut nontrivial = false;
    let mut cleared = false;
    for (step, op) in ops.iter().enumerate() {
        if ctx.saturated() {
            break;
        }
        let resolved;
        let op = if let MapOp::GetAt(i) = op {
            let present: Vec<usize> = (0..nkeys).filter(|k| matches!(st[*k], KeyState::Present(_))).collect();
            if present.is_empty() {
                continue;
            }
            let k = present[idx(*i, present.len())];
            resolved = MapOp::Get(((k as u64 * 65536 + 32768) / nkeys as u64).min(65535) as u16);
            &resolved
        } else {
            op
        };
        match op {
            MapOp::GetAt(_) => {}
            MapOp::Put(i) => {
                let k = idx(*i, nkeys);
                let v = val(0, step, k as u32);
                let Some(r) = ctx.no_panic("put", || api.put(k as u32, v)) else { return };
                for (ck, cv) in rec.drain() {
                    evictions += 1;
                    if hit_after_eviction {
                        nontrivial = true;
                    }
                    let cki = ck as usize;
                    if cki < nkeys && st[cki] == KeyState::Present(cv) {
                        st[cki] = KeyState::Absent;
                    } else if cki < nkeys && st[cki] == KeyState::Unknown {
                        st[cki] = KeyState::Unknown;
                    } else {
                        ctx.fail("evict_callback", "mismatch", "not_current_entry", format!("step {step}: put({k}) invoked the callback for ({ck}, {cv:#x}) which is not the current entry of that key ({:?})", st.get(cki)));
                    }
                }
                match r {
                    Ok(prev) => {
                        match st[k] {
                            KeyState::Present(c) => {
                                ctx.eq("put", "previous_value", &prev, &Some(c));
                            }
                            KeyState::Absent => {
                                ctx.eq("put", "previous_value", &prev, &None);
                            }
                            KeyState::Unknown => {}
                        }
                        st[k] = KeyState::Present(v);
                    }
                    Err(e) => {
                        ctx.fail("put", "err", if cleared { "after_clear" } else { "plain" }, format!("step {step}: put({k}) failed: {e}"));
                        st[k] = KeyState::Unknown;
                    }
                }
            }
            MapOp::Get(i) | MapOp::Remove(i) => {
                let k = idx(*i, nkeys);
                let is_get = matches!(op, MapOp::Get(_));
                let aspect = if is_get { "get" } else { "remove" };
                let Some(r) = ctx.no_panic(aspect, || if is_get { api.get(k as u32) } else { api.remove(k as u32) }) else { return };
                match (st[k], r) {
                    (KeyState::Present(c), Some(v)) if v == c => {
                        ctx.out.checks += 1;
                        if evictions > 0 {
                            hit_after_eviction = true;
                        }
                    }
                    (KeyState::Present(c), Some(v)) => {
                        ctx.fail(aspect, "mismatch", "stale_value", format!("step {step}: {aspect}({k}) returned {v:#x}; the most recent value put for the key is {c:#x}"));
                        st[k] = KeyState::Unknown;
                    }
                    (KeyState::Present(c), None) => {
                        ctx.fail(aspect, "mismatch", "lost_without_eviction", format!("step {step}: {aspect}({k}) returned None; {c:#x} was put, never removed or cleared, and no eviction callback was invoked for it"));
                        st[k] = KeyState::Unknown;
                    }
                    (KeyState::Absent, Some(v)) => {
                        ctx.fail(aspect, "mismatch", "resurrected", format!("step {step}: {aspect}({k}) returned {v:#x} for a key that was removed / evicted / never put"));
                        st[k] = KeyState::Unknown;
                    }
                    (KeyState::Absent, None) => ctx.out.checks += 1,
                    (KeyState::Unknown, _) => {}
                }
                if !is_get && st[k] != KeyState::Unknown {
                    st[k] = KeyState::Absent;
                }
            }
            MapOp::Contains(i) => {
                let k = idx(*i, nkeys);
                let Some(r) = ctx.no_panic("contains_key", || api.contains(k as u32)) else { return };
                match st[k] {
                    KeyState::Present(_) => {
                        ctx.eq("contains_key", "presence", &r, &true);
                    }
                    KeyState::Absent => {
                        ctx.eq("contains_key", "presence", &r, &false);
                    }
                    KeyState::Unknown => {}
                }
            }
            MapOp::Clear => {
                let Some(r) = ctx.no_panic("clear", || api.clear()) else { return };
                if let Err(e) = r {
                    ctx.fail("clear", "err", "", e);
                }
                rec.drain();
                cleared = true;
                st.iter_mut().for_each(|s| *s = KeyState::Absent);
            }
            MapOp::Len => {}
        }
        if !matches!(op, MapOp::Put(_) | MapOp::Clear) {
            let cbs = rec.drain();
            ctx.ensure("evict_callback", "by_non_put", cbs.is_empty(), || format!("step {step}: {op:?} invoked the eviction callback: {cbs:?}"));
        }
        if let Some(l) = ctx.no_panic("len", || api.len()) {
            ctx.ensure("capacity_bound", "", l <= total_cap, || format!("step {step}: len() = {l} exceeds the configured capacity {total_cap}"));
            if st.iter().all(|s| *s != KeyState::Unknown) {
                let want = st.iter().filter(|s| matches!(s, KeyState::Present(_))).count();
                ctx.eq("len", "count", &l, &want);
            }
        }
    }
    ctx.label(if evictions == 0 { "evictions:0" } else { "evictions:1+" });
    if nontrivial {
        ctx.nontrivial();
    }
}

fn run_map_case(ctx: &mut Ctx, kind: Kind, cap: u8, nkeys: u8, ops: &[MapOp]) {
    let (cap, nkeys) = (cap.max(1) as usize, nkeys.max(1) as usize);
    let rec = Rec::new();
    match kind {
        Kind::Map(preset) => {
            let built = ctx.no_panic("new", || LruMap::<u32, u64, Rec>::with_config_and_callback(lru_config(preset, cap), rec.clone()));
            let Some(built) = built else { return };
            let map = match built {
                Ok(m) => m,
                Err(e) => {
                    ctx.fail("new", "err", "", format!("with_config_and_callback(capacity {cap}) refused: {e}"));
                    return;
                }
            };
            run_strict(ctx, &map, &rec, 1, cap, false, cap, nkeys, ops);
            drop(map);
            let late = rec.drain();
            // Drop documents "clear ... will trigger eviction callbacks" but is not part of the statement
            if !late.is_empty() {
                ctx.label("callbacks_on_drop");
            }
        }
        Kind::Conc(strat, shards) => {
            let shards = shards as usize;
            // the per-shard configuration preset (statistics on/off, ...) is part of the configuration
            // space: chosen from the case's sizes, so every strategy meets every preset
            let base = ((cap + nkeys) % 4) as u8;
            ctx.label(format!("conc_base_preset={base}"));
            let cfg = ConcurrentLruMapConfig { base_config: lru_config(base, cap), shard_count: shards, load_balancing: strategy_of(strat) };
            let built = ctx.no_panic("new", || ConcurrentLruMap::<u32, u64, Rec>::with_config_and_callback(cfg, rec.clone()));
            let Some(built) = built else { return };
            let map = match built {
                Ok(m) => m,
                Err(e) => {
                    ctx.fail("new", "err", "", format!("with_config_and_callback({shards} shards x {cap}) refused: {e}"));
                    return;
                }
            };
            let total = cap * shards;
            match strat {
                // hash: per-shard model with learned shards
                0 => run_strict(ctx, &map, &rec, shards, cap, shards > 1, total, nkeys, ops),
                // round robin with one shard is a plain LRU map; with several shards only the
                // order-free oracle applies (the statement's map clauses, not the LRU order)
                1 if shards == 1 => run_strict(ctx, &map, &rec, 1, cap, false, total, nkeys, ops),
                1 => run_weak(ctx, &map, &rec, total, nkeys, ops),
                // thread affinity, single thread: every key goes to this thread's shard
                _ => run_strict(ctx, &map, &rec, 1, cap, false, total, nkeys, ops),
            }
        }
        _ => ctx.skip("cell/case mismatch"),
    }
}

// ---------------------------------------------------------------------------------------
// multi-threaded smoke history (schedule-independent clauses only)
// ---------------------------------------------------------------------------------------

#[derive(Clone, Debug)]
enum MtRes {
    Get(Option<u64>),
    Put(Result<Option<u64>, String>, u64),
    Remove(Option<u64>),
    Len(usize),
    Panicked(String),
}

#[derive(Clone, Debug)]
struct MtObs {
    step: usize,
    /// length of the callback log when the operation started
    log_before: usize,
    key: u32,
    shared: bool,
    res: MtRes,
}

struct MtShared {
    map: Box<dyn MapApi>,
    rec: Rec,
    start: Barrier,
    programs_done: Barrier,
    /// per thread: number of operations started (progress signal for the stall detector)
    progress: Vec<AtomicU64>,
    tids: Vec<AtomicU64>,
    finished: Vec<AtomicBool>,
    results: Mutex<Vec<Option<(Vec<MtObs>, Vec<(u32, bool, usize, Option<u64>)>)>>>,
}

fn thread_state(tid: u64) -> Option<char> {
    let s = std::fs::read_to_string(format!("/proc/self/task/{tid}/stat")).ok()?;
    let r = s.rfind(')')?;
    s[r + 1..].trim_start().chars().next()
}

fn priv_key(t: usize, i: usize) -> u32 {
    (100 * (t as u32 + 1)) + i as u32
}
fn shared_key(i: usize) -> u32 {
    1000 + i as u32
}

fn run_mt_case(ctx: &mut Ctx, shards: u8, strat: u8, cap: u8, npriv: u8, nshared: u8, progs: &[Vec<MtOp>]) {
    let (shards, cap, npriv) = (shards.max(1) as usize, cap.max(1) as usize, npriv.max(1) as usize);
    // thread affinity promises nothing about keys touched by several threads: private keys only
    let nshared = if strat == 2 { 0 } else { nshared as usize };
    let nthreads = progs.len();
    if nthreads == 0 {
        return;
    }
    let rec = Rec::new();
    let base = ((cap + npriv) % 4) as u8;
    ctx.label(format!("conc_base_preset={base}"));
    let cfg = ConcurrentLruMapConfig { base_config: lru_config(base, cap), shard_count: shards, load_balancing: strategy_of(strat) };
    let built = ctx.no_panic("new", || ConcurrentLruMap::<u32, u64, Rec>::with_config_and_callback(cfg, rec.clone()));
    let Some(Ok(map)) = built else {
        ctx.fail("new", "err", "", "ConcurrentLruMap::with_config_and_callback refused a valid configuration");
        return;
    };
    let total_cap = cap * shards;
    ctx.label(format!("mt:threads={nthreads}"));
    ctx.label(format!("mt:strategy={}", if strat == 2 { "thread" } else { "hash" }));
    let sh = Arc::new(MtShared {
        map: Box::new(map),
        rec: rec.clone(),
        start: Barrier::new(nthreads),
        programs_done: Barrier::new(nthreads),
        progress: (0..nthreads).map(|_| AtomicU64::new(0)).collect(),
        tids: (0..nthreads).map(|_| AtomicU64::new(0)).collect(),
        finished: (0..nthreads).map(|_| AtomicBool::new(false)).collect(),
        results: Mutex::new((0..nthreads).map(|_| None).collect()),
    });
    let mut handles = vec![];
    for t in 0..nthreads {
        let sh = sh.clone();
        let prog = progs[t].clone();
        let h = std::thread::Builder::new().name(format!("c17-mt-{t}")).spawn(move || {
            sh.tids[t].store(unsafe { libc::syscall(libc::SYS_gettid) } as u64, Ordering::SeqCst);
            let mut obs = Vec::with_capacity(prog.len());
            sh.start.wait();
            for (step, op) in prog.iter().enumerate() {
                sh.progress[t].fetch_add(1, Ordering::SeqCst);
                let (shared, ki) = match op {
                    MtOp::Get { shared, k } | MtOp::Put { shared, k } | MtOp::Remove { shared, k } => (*shared && nshared > 0, *k),
                    MtOp::Len => (false, 0),
                };
                let key = if shared { shared_key(idx(ki, nshared)) } else { priv_key(t, idx(ki, npriv)) };
                let log_before = sh.rec.len();
                let r = crate::engine::try_call(|| match op {
                    MtOp::Get { .. } => MtRes::Get(sh.map.get(key)),
                    MtOp::Put { .. } => {
                        let v = val(t, step, key);
                        MtRes::Put(sh.map.put(key, v), v)
                    }
                    MtOp::Remove { .. } => MtRes::Remove(sh.map.remove(key)),
                    MtOp::Len => MtRes::Len(sh.map.len()),
                });
                let res = match r {
                    Ok(r) => r,
                    Err(p) => MtRes::Panicked(format!("{}:{}: {}", p.file, p.line, p.msg)),
                };
                obs.push(MtObs { step, log_before, key, shared, res });
            }
            sh.progress[t].fetch_add(1, Ordering::SeqCst);
            sh.programs_done.wait();
            // quiescent sweep: gets only, so nothing is evicted any more
            let mut sweep = vec![];
            for i in 0..npriv {
                let k = priv_key(t, i);
                let lb = sh.rec.len();
                sweep.push((k, false, lb, sh.map.get(k)));
            }
            if t == 0 {
                for i in 0..nshared {
                    let k = shared_key(i);
                    let lb = sh.rec.len();
                    sweep.push((k, true, lb, sh.map.get(k)));
                }
            }
            sh.results.lock().unwrap_or_else(|e| e.into_inner())[t] = Some((obs, sweep));
            sh.finished[t].store(true, Ordering::SeqCst);
        });
        match h {
            Ok(h) => handles.push(h),
            Err(e) => {
                ctx.skip(format!("cannot spawn thread: {e}"));
                return;
            }
        }
    }
    // wait; a stall is declared only when no thread started an operation for >= 2 s AND every
    // thread of the case is sleeping (state S in /proc: blocked on a lock, not merely descheduled)
    let mut last: Vec<u64> = vec![u64::MAX; nthreads];
    let mut still = 0u32;
    let mut asleep = 0u32;
    loop {
        if sh.finished.iter().all(|f| f.load(Ordering::SeqCst)) {
            break;
        }
        std::thread::sleep(std::time::Duration::from_millis(10));
        let now: Vec<u64> = sh.progress.iter().map(|p| p.load(Ordering::SeqCst)).collect();
        if now == last {
            still += 1;
        } else {
            still = 0;
            asleep = 0;
            last = now;
        }
        if still >= 100 {
            let all_sleeping = (0..nthreads).all(|t| sh.finished[t].load(Ordering::SeqCst) || thread_state(sh.tids[t].load(Ordering::SeqCst)) == Some('S'));
            asleep = if all_sleeping { asleep + 1 } else { 0 };
            if asleep >= 30 {
                let at: Vec<String> = (0..nthreads)
                    .map(|t| {
                        let p = sh.progress[t].load(Ordering::SeqCst) as usize;
                        match progs[t].get(p.saturating_sub(1)) {
                            Some(op) if p <= progs[t].len() => format!("thread {t} blocked in op #{} {:?}", p - 1, op),
                            _ => format!("thread {t} waiting at the end-of-program barrier"),
                        }
                    })
                    .collect();
                ctx.fail(
                    "liveness",
                    "hang",
                    "all_threads_blocked",
                    format!("no operation started for 1.3 s and every thread is asleep: {}", at.join("; ")),
                );
                ctx.label("mt:stalled");
                ctx.nontrivial();
                // the blocked threads (and the map they hold) are abandoned
                std::mem::forget(handles);
                return;
            }
        }
    }
    for h in handles {
        let _ = h.join();
    }
    let results: Vec<(Vec<MtObs>, Vec<(u32, bool, usize, Option<u64>)>)> =
        sh.results.lock().unwrap_or_else(|e| e.into_inner()).iter_mut().map(|r| r.take().unwrap_or_default()).collect();
    let log = rec.snapshot();
    let mut cb_index: HashMap<u64, Vec<usize>> = HashMap::new();
    for (i, (_, v)) in log.iter().enumerate() {
        cb_index.entry(*v).or_default().push(i);
    }
    // every value ever offered to put, and the successful ones
    let mut attempted: HashMap<u64, u32> = HashMap::new();
    let mut stored: HashMap<u64, (u32, bool)> = HashMap::new();
    for (obs, _) in &results {
        for o in obs {
            if let MtRes::Put(r, v) = &o.res {
                attempted.insert(*v, o.key);
                if r.is_ok() {
                    stored.insert(*v, (o.key, o.shared));
                }
            }
        }
    }
    // A. callbacks name entries that were put, each at most once
    for (k, v) in &log {
        match attempted.get(v) {
            Some(pk) if pk == k => {
                ctx.out.checks += 1;
            }
            _ => ctx.fail("evict_callback", "mismatch", "never_put", format!("callback ({k}, {v:#x}) does not name an entry that was put")),
        }
    }
    for (v, at) in &cb_index {
        ctx.ensure("evict_callback", "duplicate", at.len() == 1, || format!("callback invoked {} times for value {v:#x}", at.len()));
    }
    let evicted = |c: u64| cb_index.contains_key(&c);
    let evicted_before = |c: u64, lb: usize| cb_index.get(&c).map(|v| v.iter().any(|&i| i < lb)).unwrap_or(false);
    // fates of every stored value
    let mut fates: HashMap<u64, u32> = HashMap::new();
    for (_, v) in &log {
        *fates.entry(*v).or_default() += 1;
    }
    let mut hits = 0usize;
    for (t, (obs, sweep)) in results.iter().enumerate() {
        let mut cur: HashMap<u32, Option<u64>> = HashMap::new();
        // unify program observations and the quiescent sweep
        let seq: Vec<(usize, usize, u32, bool, &'static str, Option<Option<u64>>, Option<u64>, bool)> = obs
            .iter()
            .filter_map(|o| match &o.res {
                MtRes::Get(r) => Some((o.step, o.log_before, o.key, o.shared, "get", Some(*r), None, false)),
                MtRes::Remove(r) => Some((o.step, o.log_before, o.key, o.shared, "remove", Some(*r), None, false)),
                MtRes::Put(Ok(prev), v) => Some((o.step, o.log_before, o.key, o.shared, "put", Some(*prev), Some(*v), false)),
                MtRes::Put(Err(_), _) => Some((o.step, o.log_before, o.key, o.shared, "put", None, None, true)),
                MtRes::Len(l) => {
                    let _ = l;
                    None
                }
                MtRes::Panicked(_) => None,
            })
            .chain(sweep.iter().map(|(k, shared, lb, r)| (usize::MAX, *lb, *k, *shared, "get", Some(*r), None, false)))
            .collect();
        for o in obs {
            match &o.res {
                MtRes::Len(l) => {
                    ctx.ensure("capacity_bound", "", *l <= total_cap, || format!("thread {t} step {}: len() = {l} exceeds the configured capacity {total_cap}", o.step));
                }
                MtRes::Panicked(m) => ctx.fail("mt_op", "panic", "", format!("thread {t} step {}: {m}", o.step)),
                MtRes::Put(Err(_), _) => ctx.label("mt:put_refused"),
                _ => {}
            }
        }
        for (step, lb, key, shared, aspect, ret, newv, put_err) in seq {
            let kc = if shared { "shared_key" } else { "private_key" };
            let at = if step == usize::MAX { "final sweep".to_string() } else { format!("step {step}") };
            // a returned value must have been put for this very key
            if let Some(Some(v)) = ret {
                match attempted.get(&v) {
                    Some(pk) if *pk == key => {
                        ctx.out.checks += 1;
                    }
                    _ => ctx.fail(aspect, "mismatch", &format!("{kc}_foreign_value"), format!("thread {t} {at}: {aspect}({key}) returned {v:#x}, a value put for key {} (or never put)", val_key(v))),
                }
                if aspect != "get" || step == usize::MAX {
                    *fates.entry(v).or_default() += 1;
                }
                if aspect == "get" {
                    hits += 1;
                }
                // the callback must never be invoked for an entry that is still retrievable
                ctx.ensure("evict_callback", &format!("{kc}_still_retrievable"), !evicted_before(v, lb), || {
                    format!("thread {t} {at}: {aspect}({key}) returned {v:#x} although the eviction callback had already been invoked for that entry")
                });
            }
            if !shared {
                // sequential semantics per private key (nobody else touches it)
                let c = cur.entry(key).or_insert(None);
                if put_err {
                    if let Some(cv) = *c {
                        ctx.ensure("put", "private_key_lost_without_eviction", evicted(cv), || format!("thread {t} {at}: put({key}) took the new-key path and failed although {cv:#x} was never removed or evicted"));
                    }
                    *c = None;
                    continue;
                }
                let got = ret.unwrap_or(None);
                match (*c, got) {
                    (Some(cv), Some(v)) => {
                        if v != cv && val_key(v) == key {
                            ctx.fail(aspect, "mismatch", "private_key_stale_value", format!("thread {t} {at}: {aspect}({key}) returned {v:#x}; the most recent value put is {cv:#x}"));
                        } else {
                            ctx.out.checks += 1;
                        }
                    }
                    (Some(cv), None) => {
                        ctx.ensure(aspect, "private_key_lost_without_eviction", evicted(cv), || {
                            format!("thread {t} {at}: {aspect}({key}) returned None; {cv:#x} was put by this thread, never removed, and no eviction callback was invoked for it")
                        });
                    }
                    (None, Some(v)) => {
                        if val_key(v) == key {
                            ctx.fail(aspect, "mismatch", "private_key_resurrected", format!("thread {t} {at}: {aspect}({key}) returned {v:#x} after the key was removed / evicted / never put"));
                        }
                    }
                    (None, None) => ctx.out.checks += 1,
                }
                *c = match aspect {
                    "put" => newv,
                    "remove" => None,
                    _ => got.filter(|v| val_key(*v) == key),
                };
            }
        }
    }
    // every stored value has exactly one fate: overwritten (returned by put), removed (returned
    // by remove), evicted (callback) or still present in the quiescent sweep
    for (v, (k, shared)) in &stored {
        let n = fates.get(v).copied().unwrap_or(0);
        let kc = if *shared { "shared_key" } else { "private_key" };
        if n == 0 {
            ctx.fail("conservation", "mismatch", &format!("{kc}_lost"), format!("value {v:#x} put for key {k} was neither returned by a later put/remove, nor evicted through the callback, nor present at the end"));
        } else if n > 1 {
            ctx.fail("conservation", "mismatch", &format!("{kc}_duplicated"), format!("value {v:#x} put for key {k} has {n} fates (returned by put/remove, callback, present at the end)"));
        } else {
            ctx.out.checks += 1;
        }
    }
    if let Some(l) = ctx.no_panic("len", || sh.map.len()) {
        ctx.ensure("capacity_bound", "", l <= total_cap, || format!("after join: len() = {l} exceeds the configured capacity {total_cap}"));
    }
    ctx.label(match log.len() {
        0 => "mt:evictions:0",
        1..=3 => "mt:evictions:1-3",
        _ => "mt:evictions:4+",
    });
    if log.len() >= 2 && hits >= 1 {
        ctx.nontrivial();
    }
}

// ---------------------------------------------------------------------------------------
// page cache
// ---------------------------------------------------------------------------------------

fn content_key(seed: u64, file: usize, ver: u32) -> u64 {
    mix(mix(seed, file as u64 + 1), ver as u64 + 0x51)
}

/// byte of file `file` (page version `ver`) at absolute offset `o`
fn byte_at(key: u64, o: u64) -> u8 {
    (mix(key, o >> 3) >> ((o & 7) * 8)) as u8
}

fn fill(key: u64, start: u64, out: &mut [u8]) {
    for (i, b) in out.iter_mut().enumerate() {
        *b = byte_at(key, start + i as u64);
    }
}

fn page_config(preset: u8, cap_pages: usize, shards: u8) -> PageCacheConfig {
    let base = match preset {
        1 => PageCacheConfig::performance_optimized().with_huge_pages(false),
        2 => PageCacheConfig::memory_optimized(),
        3 => PageCacheConfig::security_optimized(),
        _ => PageCacheConfig::balanced(),
    };
    base.with_capacity(cap_pages * PAGE as usize).with_shards(shards as u32)
}

struct FileM {
    n: usize,
    path: std::path::PathBuf,
    size: u64,
    id: Option<FileId>,
    closed: Vec<FileId>,
    /// current version of every page on disk
    cur: Vec<u32>,
    /// versions the cache may legitimately hold for every page (current one always included)
    allowed: Vec<Vec<u32>>,
}

impl FileM {
    fn npages(&self) -> usize {
        self.cur.len()
    }
}

enum Pc {
    Lru(LruPageCache),
    Single(SingleLruPageCache, BufferPool),
}

impl Pc {
    fn open(&self, p: &std::path::Path) -> zipora::Result<FileId> {
        match self {
            Pc::Lru(c) => c.open_file(p),
            Pc::Single(c, _) => c.open_file(p),
        }
    }
    fn read(&self, id: FileId, off: u64, len: usize, alt: bool) -> zipora::Result<CacheBuffer> {
        match self {
            Pc::Lru(c) => c.read(id, off, len),
            Pc::Single(c, pool) => {
                if alt {
                    c.read_new(id, off, len)
                } else {
                    let mut b = pool.get();
                    if (off as usize + len) % 2 == 1 {
                        // a caller-owned buffer that still holds the bytes of an earlier read
                        b.copy_from_slice(&[0xEE; 37]);
                    }
                    c.read(id, off, len, &mut b)?;
                    Ok(b)
                }
            }
        }
    }
    fn prefetch(&self, id: FileId, off: u64, len: usize) -> zipora::Result<()> {
        match self {
            Pc::Lru(c) => c.prefetch(id, off, len),
            Pc::Single(c, _) => c.prefetch(id, off, len),
        }
    }
    fn invalidate_page(&self, id: FileId, page: u32) -> zipora::Result<()> {
        match self {
            Pc::Lru(c) => c.invalidate_page(id, page),
            Pc::Single(c, _) => c.invalidate_page(id, page),
        }
    }
    fn invalidate_range(&self, id: FileId, off: u64, len: usize) -> zipora::Result<()> {
        match self {
            Pc::Lru(c) => c.invalidate_range(id, off, len),
            Pc::Single(c, _) => c.invalidate_range(id, off, len),
        }
    }
    fn mark_dirty(&self, id: FileId, page: u32) -> zipora::Result<()> {
        match self {
            Pc::Lru(c) => c.mark_dirty(id, page),
            Pc::Single(c, _) => c.mark_dirty(id, page),
        }
    }
    fn flush(&self, id: FileId) -> zipora::Result<()> {
        match self {
            Pc::Lru(c) => c.flush_file(id),
            Pc::Single(c, _) => c.flush_file(id),
        }
    }
    fn close(&self, id: FileId) -> zipora::Result<()> {
        match self {
            Pc::Lru(c) => c.close_file(id),
            Pc::Single(c, _) => c.close_file(id),
        }
    }
    fn release(&self, b: CacheBuffer) {
        if let Pc::Single(_, pool) = self {
            pool.put(b);
        }
    }
}

fn resolve_off(o: &Off, f: &FileM) -> u64 {
    let np = f.npages() as u64;
    match o {
        Off::Page { page, d } => ((*page as u64).min(np + 1) * PAGE).saturating_add_signed(*d as i64),
        Off::Eof { d } => f.size.saturating_add_signed(*d as i64),
        Off::Any(a) => ((*a as u64) * (f.size + 2 * PAGE)) >> 16,
    }
}

fn resolve_len(l: &Len, f: &FileM, off: u64) -> usize {
    match l {
        Len::Zero => 0,
        Len::Small(n) => *n as usize,
        Len::Pages { pages, d } => ((*pages as u64) * PAGE).saturating_add_signed(*d as i64) as usize,
        Len::ToEof { d } => f.size.saturating_sub(off).saturating_add_signed(*d as i64) as usize,
    }
}

/// shadow bookkeeping used only for the non-triviality rule and labels (never for verdicts)
#[derive(Default)]
struct Shadow {
    cap: usize,
    /// ideal LRU of (file id, page); last = most recent
    lru: Vec<(FileId, u32)>,
    ever: HashSet<(FileId, u32)>,
    invalidated: HashSet<(FileId, u32)>,
    span_resident_evicted: bool,
    read_after_invalidate: bool,
    read_after_modify_invalidate: bool,
}

impl Shadow {
    fn touch_range(&mut self, id: FileId, off: u64, len: usize, is_read: bool) {
        let first = (off / PAGE) as u32;
        let last = ((off + len as u64).saturating_sub(1) / PAGE) as u32;
        if first > last || last - first > 64 {
            return;
        }
        if is_read {
            let (mut res, mut evi) = (false, false);
            for p in first..=last {
                let key = (id, p);
                if self.lru.contains(&key) {
                    res = true;
                } else if self.ever.contains(&key) {
                    evi = true;
                }
                if self.invalidated.contains(&key) {
                    self.read_after_invalidate = true;
                }
            }
            if res && evi && last > first {
                self.span_resident_evicted = true;
            }
        }
        for p in first..=last {
            let key = (id, p);
            self.invalidated.remove(&key);
            self.ever.insert(key);
            self.lru.retain(|k| *k != key);
            self.lru.push(key);
            if self.lru.len() > self.cap.max(1) {
                self.lru.remove(0);
            }
        }
    }
    fn invalidate(&mut self, id: FileId, page: u32) {
        if self.ever.contains(&(id, page)) {
            self.invalidated.insert((id, page));
        }
        self.lru.retain(|k| *k != (id, page));
    }
}

/// Compare `got` with the bytes of `f` in `[off, off+len)`.
fn check_range(ctx: &mut Ctx, aspect: &str, seed: u64, f: &FileM, off: u64, len: usize, got: &[u8], state_class: &str) -> bool {
    let size = f.size;
    let lo = off.min(size);
    let hi = off.saturating_add(len as u64).min(size);
    let bclass = if len == 0 {
        "zero_len"
    } else if off >= size {
        "beyond_eof"
    } else if off + len as u64 > size {
        if size % PAGE != 0 {
            "crosses_eof_partial_last_page"
        } else {
            "crosses_eof_aligned"
        }
    } else {
        "in_bounds"
    };
    ctx.label(format!("range:{bclass}"));
    let sfx = if state_class.is_empty() { String::new() } else { format!(":{state_class}") };
    let want_len = (hi - lo) as usize;
    let mut ok = ctx.ensure(aspect, &format!("{bclass}:length{sfx}"), got.len() == want_len, || {
        format!("read(file {} size {size}, offset {off}, length {len}) returned {} bytes, the file holds {want_len} bytes in that range", f.n, got.len())
    });
    // content, page by page: every page segment must equal one of the versions the cache may hold
    let n = got.len().min(want_len);
    let mut pos = 0usize;
    while pos < n {
        let abs = lo + pos as u64;
        let page = (abs / PAGE) as usize;
        let seg = (((page as u64 + 1) * PAGE - abs) as usize).min(n - pos);
        let mut matched = false;
        let mut buf = vec![0u8; seg];
        for ver in f.allowed.get(page).map(|v| v.as_slice()).unwrap_or(&[]) {
            fill(content_key(seed, f.n, *ver), abs, &mut buf);
            if buf[..] == got[pos..pos + seg] {
                matched = true;
                break;
            }
        }
        ctx.out.checks += 1;
        if !matched {
            let cur = f.cur.get(page).copied().unwrap_or(0);
            fill(content_key(seed, f.n, cur), abs, &mut buf);
            let first_bad = (0..seg).find(|&i| buf[i] != got[pos + i]).unwrap_or(0);
            // is it an older version that should have been dropped by an invalidation?
            let mut older = None;
            for ver in 0..cur {
                let mut b2 = vec![0u8; seg];
                fill(content_key(seed, f.n, ver), abs, &mut b2);
                if b2[..] == got[pos..pos + seg] {
                    older = Some(ver);
                }
            }
            let what = match older {
                Some(v) => format!("it equals version {v} of that page (current {cur}, allowed {:?}): stale", f.allowed.get(page)),
                None => "it matches no version of that page".to_string(),
            };
            ctx.fail(
                aspect,
                "mismatch",
                &format!("{bclass}:{}{sfx}", if older.is_some() { "stale_bytes" } else { "wrong_bytes" }),
                format!("read(file {} size {size}, offset {off}, length {len}): segment at file offset {abs} (page {page}, {seg} bytes) differs from the file at byte {first_bad}; {what}", f.n),
            );
            ok = false;
            break;
        }
        pos += seg;
    }
    ok
}

fn run_page_case(ctx: &mut Ctx, kind: Kind, shards: u8, cap_pages: u8, seed: u64, files: &[FileSpec], ops: &[PageOp]) {
    let cap_pages = cap_pages.max(1) as usize;
    let pc = match kind {
        Kind::Page(preset) => match ctx.no_panic("new", || LruPageCache::new(page_config(preset, cap_pages, shards))) {
            Some(Ok(c)) => Pc::Lru(c),
            Some(Err(e)) => {
                ctx.fail("new", "err", "", format!("LruPageCache::new refused {cap_pages} pages / {shards} shards: {e}"));
                return;
            }
            None => return,
        },
        _ => match ctx.no_panic("new", || SingleLruPageCache::new(page_config(0, cap_pages, shards))) {
            Some(Ok(c)) => Pc::Single(c, BufferPool::new(4)),
            Some(Err(e)) => {
                ctx.fail("new", "err", "", format!("SingleLruPageCache::new refused {cap_pages} pages: {e}"));
                return;
            }
            None => return,
        },
    };
    ctx.label(format!("cache_pages={cap_pages}"));
    // create the files
    let mut fm: Vec<FileM> = vec![];
    for (n, spec) in files.iter().enumerate() {
        let size = spec.full_pages.max(1) as u64 * PAGE + (spec.tail as u64 % PAGE);
        let path = ctx.scratch.join(format!("c17_page_{n}.bin"));
        let mut data = vec![0u8; size as usize];
        fill(content_key(seed, n, 0), 0, &mut data);
        if let Err(e) = std::fs::write(&path, &data) {
            ctx.skip(format!("cannot create scratch file: {e}"));
            cleanup(&fm);
            return;
        }
        let np = size.div_ceil(PAGE) as usize;
        fm.push(FileM { n, path, size, id: None, closed: vec![], cur: vec![0; np], allowed: vec![vec![0]; np] });
    }
    if fm.is_empty() {
        return;
    }
    for f in fm.iter_mut() {
        match ctx.no_panic("open_file", || pc.open(&f.path)) {
            Some(Ok(id)) => f.id = Some(id),
            Some(Err(e)) => {
                ctx.fail("open_file", "err", "", format!("{e}"));
                cleanup(&fm);
                return;
            }
            None => {
                cleanup(&fm);
                return;
            }
        }
    }
    ctx.label(if fm.iter().map(|f| f.npages()).sum::<usize>() > cap_pages { "files_larger_than_cache" } else { "files_fit_in_cache" });
    let mut shadow = Shadow { cap: cap_pages, ..Default::default() };
    let mut kept: Vec<(CacheBuffer, Vec<u8>, String)> = vec![];
    let mut modified_then_invalidated: HashSet<(usize, usize)> = HashSet::new();
    let mut pending_modified: HashSet<(usize, usize)> = HashSet::new();

    // one read request against the model; returns the buffer when it should be kept
    fn do_read(
        ctx: &mut Ctx,
        pc: &Pc,
        aspect: &str,
        seed: u64,
        f: &FileM,
        shadow: &mut Shadow,
        mti: &HashSet<(usize, usize)>,
        off: u64,
        len: usize,
        alt: bool,
        got: Option<zipora::Result<CacheBuffer>>,
    ) -> Option<CacheBuffer> {
        let got = match got {
            Some(g) => g,
            None => match ctx.no_panic(aspect, || pc.read(f.id.unwrap_or(0), off, len, alt)) {
                Some(g) => g,
                None => return None,
            },
        };
        let touches_mti = {
            let first = (off / PAGE) as usize;
            let last = ((off + len as u64).saturating_sub(1) / PAGE) as usize;
            len > 0 && (first..=last.min(first + 64)).any(|p| mti.contains(&(f.n, p)))
        };
        if touches_mti {
            shadow.read_after_modify_invalidate = true;
        }
        match got {
            Ok(b) => {
                let state = if touches_mti { "after_invalidate" } else { "" };
                check_range(ctx, aspect, seed, f, off, len, b.data(), state);
                ctx.eq("buffer_len", "", &b.len(), &b.data().len());
                if let Some(id) = f.id {
                    shadow.touch_range(id, off, len, true);
                }
                Some(b)
            }
            Err(e) => {
                // an error is acceptable only for a request that reaches beyond the file
                if off.saturating_add(len as u64) <= f.size {
                    ctx.fail(aspect, "err", "in_bounds", format!("read(file {} size {}, offset {off}, length {len}) failed: {e}", f.n, f.size));
                } else {
                    ctx.label("read_beyond_eof_refused");
                }
                None
            }
        }
    }

    // scenario ops are expanded into their primitive steps
    let mut expanded: Vec<PageOp> = Vec::with_capacity(ops.len());
    for op in ops {
        match op {
            PageOp::Refresh { f, page, via_range } => {
                let np = fm[idx16(*f, fm.len())].npages().max(1);
                let page = (*page as usize % np) as u16;
                expanded.push(PageOp::Modify { f: *f, page });
                if *via_range {
                    expanded.push(PageOp::InvalidateRange(Req { f: *f, off: Off::Page { page, d: 1 }, len: Len::Small(7) }));
                } else {
                    expanded.push(PageOp::InvalidatePage { f: *f, page });
                }
                expanded.push(PageOp::Read { r: Req { f: *f, off: Off::Page { page, d: 0 }, len: Len::Pages { pages: 1, d: 0 } }, keep: true, alt: true });
            }
            other => expanded.push(other.clone()),
        }
    }
    let ops = &expanded[..];
    for (step, op) in ops.iter().enumerate() {
        if ctx.saturated() {
            break;
        }
        match op {
            PageOp::Refresh { .. } => {}
            PageOp::Read { r, keep, alt } => {
                let f = &fm[idx16(r.f, fm.len())];
                let off = resolve_off(&r.off, f);
                let len = resolve_len(&r.len, f, off);
                if f.id.is_none() {
                    read_closed(ctx, &pc, f, off, len);
                    continue;
                }
                if let Some(b) = do_read(ctx, &pc, if matches!(pc, Pc::Single(..)) && !*alt { "single_read" } else { "read" }, seed, f, &mut shadow, &modified_then_invalidated, off, len, *alt, None) {
                    if *keep && kept.len() < 24 {
                        let snap = b.data().to_vec();
                        kept.push((b, snap, format!("step {step} file {} offset {off} length {len}", f.n)));
                    } else {
                        pc.release(b);
                    }
                }
            }
            PageOp::ReadBatch(reqs) => {
                let rs: Vec<(usize, u64, usize)> = reqs
                    .iter()
                    .map(|r| {
                        let fi = idx16(r.f, fm.len());
                        let off = resolve_off(&r.off, &fm[fi]);
                        (fi, off, resolve_len(&r.len, &fm[fi], off))
                    })
                    .filter(|(fi, _, _)| fm[*fi].id.is_some())
                    .collect();
                match &pc {
                    Pc::Lru(c) => {
                        let batch: Vec<(FileId, u64, usize)> = rs.iter().map(|(fi, off, len)| (fm[*fi].id.unwrap_or(0), *off, *len)).collect();
                        let Some(res) = ctx.no_panic("read_batch", || c.read_batch(batch)) else { continue };
                        match res {
                            Ok(bufs) => {
                                if ctx.eq("read_batch", "result_count", &bufs.len(), &rs.len()) {
                                    for (b, (fi, off, len)) in bufs.into_iter().zip(rs.iter()) {
                                        do_read(ctx, &pc, "read_batch", seed, &fm[*fi], &mut shadow, &modified_then_invalidated, *off, *len, false, Some(Ok(b)));
                                    }
                                }
                            }
                            Err(e) => {
                                if rs.iter().all(|(fi, off, len)| off + *len as u64 <= fm[*fi].size) {
                                    ctx.fail("read_batch", "err", "in_bounds", format!("{e}"));
                                }
                            }
                        }
                    }
                    Pc::Single(..) => {
                        for (fi, off, len) in rs {
                            if let Some(b) = do_read(ctx, &pc, "read", seed, &fm[fi], &mut shadow, &modified_then_invalidated, off, len, true, None) {
                                pc.release(b);
                            }
                        }
                    }
                }
            }
            PageOp::Prefetch(r) => {
                let f = &fm[idx16(r.f, fm.len())];
                let Some(id) = f.id else { continue };
                let off = resolve_off(&r.off, f);
                let len = resolve_len(&r.len, f, off);
                if let Some(Err(_)) = ctx.no_panic("prefetch", || pc.prefetch(id, off, len)) {
                    ctx.label("prefetch_refused");
                }
                shadow.touch_range(id, off, len, false);
            }
            PageOp::ReadWithPrefetch { r, ahead } => {
                let f = &fm[idx16(r.f, fm.len())];
                let Some(id) = f.id else { continue };
                let off = resolve_off(&r.off, f);
                let len = resolve_len(&r.len, f, off);
                let ahead = resolve_len(ahead, f, off + len as u64);
                let got = match &pc {
                    Pc::Lru(c) => ctx.no_panic("read_with_prefetch", || c.read_with_prefetch(id, off, len, ahead)),
                    Pc::Single(c, _) => ctx.no_panic("read_with_prefetch", || {
                        let _ = c.prefetch(id, off + len as u64, ahead);
                        c.read_new(id, off, len)
                    }),
                };
                let Some(got) = got else { continue };
                if ahead > 0 {
                    shadow.touch_range(id, off + len as u64, ahead, false);
                }
                if let Some(b) = do_read(ctx, &pc, "read_with_prefetch", seed, f, &mut shadow, &modified_then_invalidated, off, len, true, Some(got)) {
                    pc.release(b);
                }
            }
            PageOp::InvalidatePage { f, page } => {
                let fi = idx16(*f, fm.len());
                let Some(id) = fm[fi].id else { continue };
                let page = (*page as usize).min(fm[fi].npages() + 1);
                match ctx.no_panic("invalidate_page", || pc.invalidate_page(id, page as u32)) {
                    Some(Ok(())) => {
                        invalidated(&mut fm[fi], page, &mut pending_modified, &mut modified_then_invalidated);
                        shadow.invalidate(id, page as u32);
                    }
                    Some(Err(e)) => ctx.fail("invalidate_page", "err", "", format!("{e}")),
                    None => {}
                }
            }
            PageOp::InvalidateRange(r) => {
                let fi = idx16(r.f, fm.len());
                let Some(id) = fm[fi].id else { continue };
                let off = resolve_off(&r.off, &fm[fi]);
                let len = resolve_len(&r.len, &fm[fi], off);
                match ctx.no_panic("invalidate_range", || pc.invalidate_range(id, off, len)) {
                    Some(Ok(())) => {
                        // only pages that intersect a non-empty range are promised
                        if len > 0 {
                            let first = (off / PAGE) as usize;
                            let last = ((off + len as u64 - 1) / PAGE) as usize;
                            for p in first..=last.min(fm[fi].npages()) {
                                invalidated(&mut fm[fi], p, &mut pending_modified, &mut modified_then_invalidated);
                                shadow.invalidate(id, p as u32);
                            }
                        }
                    }
                    Some(Err(e)) => ctx.fail("invalidate_range", "err", "", format!("{e}")),
                    None => {}
                }
            }
            PageOp::Modify { f, page } => {
                let fi = idx16(*f, fm.len());
                let f = &mut fm[fi];
                let page = (*page as usize) % f.npages().max(1);
                let ver = f.cur[page] + 1;
                let start = page as u64 * PAGE;
                let n = (f.size - start).min(PAGE) as usize;
                let mut data = vec![0u8; n];
                fill(content_key(seed, f.n, ver), start, &mut data);
                let wrote = std::fs::OpenOptions::new().write(true).open(&f.path).and_then(|mut h| {
                    h.seek(SeekFrom::Start(start))?;
                    h.write_all(&data)?;
                    h.flush()
                });
                if let Err(e) = wrote {
                    ctx.skip(format!("cannot rewrite scratch file: {e}"));
                    break;
                }
                f.cur[page] = ver;
                f.allowed[page].push(ver);
                pending_modified.insert((f.n, page));
                modified_then_invalidated.remove(&(f.n, page));
                ctx.label("file_modified");
            }
            PageOp::MarkDirty { f, page } => {
                let f = &fm[idx16(*f, fm.len())];
                if let Some(id) = f.id {
                    let _ = ctx.no_panic("mark_dirty", || pc.mark_dirty(id, *page as u32));
                }
            }
            PageOp::Flush { f } => {
                let f = &fm[idx16(*f, fm.len())];
                if let Some(id) = f.id {
                    let _ = ctx.no_panic("flush_file", || pc.flush(id));
                }
            }
            PageOp::Close { f } | PageOp::Reopen { f } => {
                let fi = idx16(*f, fm.len());
                if let Some(id) = fm[fi].id.take() {
                    match ctx.no_panic("close_file", || pc.close(id)) {
                        Some(Ok(())) => {}
                        Some(Err(e)) => ctx.fail("close_file", "err", "", format!("closing an open file failed: {e}")),
                        None => {}
                    }
                    fm[fi].closed.push(id);
                    ctx.label("file_closed");
                }
                if matches!(op, PageOp::Reopen { .. }) {
                    match ctx.no_panic("open_file", || pc.open(&fm[fi].path)) {
                        Some(Ok(id)) => {
                            ctx.ensure("open_file", "id_reused", !fm.iter().any(|f| f.id == Some(id) || f.closed.contains(&id)), || format!("open_file returned file id {id} which was handed out before"));
                            let f = &mut fm[fi];
                            f.id = Some(id);
                            // a fresh id has nothing cached: only the current content is acceptable
                            for p in 0..f.npages() {
                                f.allowed[p] = vec![f.cur[p]];
                                pending_modified.remove(&(f.n, p));
                            }
                            ctx.label("file_reopened");
                        }
                        Some(Err(e)) => ctx.fail("open_file", "err", "", format!("{e}")),
                        None => {}
                    }
                }
            }
            PageOp::Recheck => recheck(ctx, &kept),
            PageOp::DropKept(i) => {
                if !kept.is_empty() {
                    let (b, snap, what) = kept.remove(idx(*i, kept.len()));
                    ctx.ensure("kept_buffer", "", b.data() == &snap[..], || format!("buffer returned at {what} changed while it was kept alive"));
                    pc.release(b);
                }
            }
        }
    }
    recheck(ctx, &kept);
    if !kept.is_empty() {
        ctx.label("buffers_kept_alive");
    }
    if shadow.span_resident_evicted {
        ctx.label("read_spans_resident_and_evicted");
    }
    if shadow.read_after_invalidate {
        ctx.label("read_after_invalidate");
    }
    if shadow.read_after_modify_invalidate {
        ctx.label("read_after_modify+invalidate");
    }
    if shadow.span_resident_evicted && (shadow.read_after_invalidate || shadow.read_after_modify_invalidate) {
        ctx.nontrivial();
    }
    drop(kept);
    for f in fm.iter_mut() {
        if let Some(id) = f.id.take() {
            let _ = ctx.no_panic("close_file", || pc.close(id));
        }
    }
    cleanup(&fm);
}

fn idx16(f: u8, n: usize) -> usize {
    (f as usize) % n.max(1)
}

fn invalidated(f: &mut FileM, page: usize, pending: &mut HashSet<(usize, usize)>, mti: &mut HashSet<(usize, usize)>) {
    if page < f.npages() {
        f.allowed[page] = vec![f.cur[page]];
        if pending.remove(&(f.n, page)) {
            mti.insert((f.n, page));
        }
    }
}

fn recheck(ctx: &mut Ctx, kept: &[(CacheBuffer, Vec<u8>, String)]) {
    for (b, snap, what) in kept {
        ctx.ensure("kept_buffer", "", b.data() == &snap[..], || format!("buffer returned at {what} changed while it was kept alive across later cache operations"));
    }
}

/// a read on a closed file id: the documented effect of close_file is "clear its cached pages"
fn read_closed(ctx: &mut Ctx, pc: &Pc, f: &FileM, off: u64, len: usize) {
    let Some(&id) = f.closed.last() else { return };
    ctx.label("read_after_close");
    if let Some(Ok(b)) = ctx.no_panic("read_after_close", || pc.read(id, off, len, true)) {
        ctx.ensure("read_after_close", "", b.data().is_empty(), || format!("read on closed file id {id} returned {} bytes", b.len()));
    }
}

fn cleanup(fm: &[FileM]) {
    for f in fm {
        let _ = std::fs::remove_file(&f.path);
    }
}

// ---------------------------------------------------------------------------------------
// cached blob store vs twin
// ---------------------------------------------------------------------------------------

fn write_strategy(s: u8) -> CacheWriteStrategy {
    match s % 3 {
        1 => CacheWriteStrategy::WriteBack,
        2 => CacheWriteStrategy::WriteAround,
        _ => CacheWriteStrategy::WriteThrough,
    }
}

fn same_result<T: PartialEq + std::fmt::Debug, E: std::fmt::Display>(ctx: &mut Ctx, aspect: &str, class: &str, got: Result<T, E>, want: Result<T, E>) {
    match (got, want) {
        (Ok(g), Ok(w)) => {
            ctx.eq(aspect, class, &g, &w);
        }
        (Err(_), Err(_)) => ctx.out.checks += 1,
        (Ok(g), Err(e)) => ctx.fail(aspect, "mismatch", class, format!("cached store answered Ok({}) where the wrapped store type answers Err({e})", crate::engine::clip(&format!("{g:?}"), 120))),
        (Err(e), Ok(w)) => ctx.fail(aspect, "err", class, format!("cached store answered Err({e}) where the wrapped store type answers Ok({})", crate::engine::clip(&format!("{w:?}"), 120))),
    }
}

fn run_store_case(ctx: &mut Ctx, strat: u8, cap_pages: u8, shared_cache: bool, seed: u64, ops: &[StoreOp]) {
    let cap_pages = cap_pages.max(1) as usize;
    let cfg = page_config(0, cap_pages, 1);
    let mut foreign: Option<(Arc<LruPageCache>, FileM)> = None;
    let built = if shared_cache {
        let cache = match ctx.no_panic("new", || LruPageCache::new(cfg.clone())) {
            Some(Ok(c)) => Arc::new(c),
            _ => {
                ctx.fail("new", "err", "", "LruPageCache::new refused a valid configuration");
                return;
            }
        };
        // a real file lives in the same cache, at the same offsets the blobs are assigned
        let size = 6 * PAGE + 17;
        let path = ctx.scratch.join("c17_store_foreign.bin");
        let mut data = vec![0u8; size as usize];
        fill(content_key(seed, 0, 0), 0, &mut data);
        if std::fs::write(&path, &data).is_err() {
            ctx.skip("cannot create scratch file");
            return;
        }
        let np = size.div_ceil(PAGE) as usize;
        let mut f = FileM { n: 0, path, size, id: None, closed: vec![], cur: vec![0; np], allowed: vec![vec![0]; np] };
        if let Some(Ok(id)) = ctx.no_panic("open_file", || cache.open_file(&f.path)) {
            f.id = Some(id);
        }
        let c2 = cache.clone();
        foreign = Some((cache, f));
        ctx.label("store:shared_cache");
        ctx.no_panic("new", || CachedBlobStore::with_cache_and_strategy(MemoryBlobStore::new(), c2, write_strategy(strat)))
    } else {
        ctx.label("store:own_cache");
        ctx.no_panic("new", || CachedBlobStore::with_write_strategy(MemoryBlobStore::new(), cfg, write_strategy(strat)))
    };
    let mut store = match built {
        Some(Ok(s)) => s,
        Some(Err(e)) => {
            ctx.fail("new", "err", "", format!("{e}"));
            if let Some((_, f)) = &foreign {
                let _ = std::fs::remove_file(&f.path);
            }
            return;
        }
        None => return,
    };
    let mut twin = MemoryBlobStore::new();
    // (id in the cached store, id in the twin, live)
    let mut ids: Vec<(u32, u32, bool)> = vec![];
    let (mut gets_after_remove, mut big_blobs, mut total) = (0usize, 0usize, 0usize);
    for op in ops {
        if ctx.saturated() {
            break;
        }
        match op {
            StoreOp::Put { len, seed: s } => {
                let mut data = vec![0u8; *len as usize];
                fill(mix(seed, *s as u64), 0, &mut data);
                let Some(r) = ctx.no_panic("put", || store.put(&data)) else { break };
                let t = twin.put(&data);
                match (r, t) {
                    (Ok(a), Ok(b)) => {
                        ids.push((a, b, true));
                        total += data.len();
                        if data.len() > PAGE as usize {
                            big_blobs += 1;
                        }
                    }
                    (Err(e), Ok(b)) => {
                        let _ = twin.remove(b);
                        ctx.fail("put", "err", "", format!("cached store refused a {}-byte blob the wrapped store type accepts: {e}", data.len()));
                    }
                    _ => {}
                }
            }
            StoreOp::Get(i) => {
                if ids.is_empty() {
                    continue;
                }
                let (a, b, live) = ids[idx(*i, ids.len())];
                if !live {
                    gets_after_remove += 1;
                }
                let Some(r) = ctx.no_panic("get", || store.get(a)) else { break };
                same_result(ctx, "get", if live { "live" } else { "removed" }, r, twin.get(b));
            }
            StoreOp::Remove(i) => {
                if ids.is_empty() {
                    continue;
                }
                let j = idx(*i, ids.len());
                let (a, b, live) = ids[j];
                let Some(r) = ctx.no_panic("remove", || store.remove(a)) else { break };
                same_result(ctx, "remove", if live { "live" } else { "removed" }, r, twin.remove(b));
                ids[j].2 = false;
            }
            StoreOp::Contains(i) => {
                if ids.is_empty() {
                    continue;
                }
                let (a, b, _) = ids[idx(*i, ids.len())];
                if let Some(r) = ctx.no_panic("contains", || store.contains(a)) {
                    ctx.eq("contains", "", &r, &twin.contains(b));
                }
            }
            StoreOp::Size(i) => {
                if ids.is_empty() {
                    continue;
                }
                let (a, b, _) = ids[idx(*i, ids.len())];
                if let Some(r) = ctx.no_panic("size", || store.size(a)) {
                    same_result(ctx, "size", "", r, twin.size(b));
                }
            }
            StoreOp::Len => {
                if let Some(r) = ctx.no_panic("len", || (store.len(), store.is_empty())) {
                    ctx.eq("len", "", &r, &(twin.len(), twin.is_empty()));
                }
            }
            StoreOp::Prefetch { off, len } => {
                let _ = ctx.no_panic("prefetch_range", || store.prefetch_range(*off as u64, *len as usize));
            }
            StoreOp::Flush => {
                let _ = ctx.no_panic("flush", || CachedBlobStore::flush(&store));
            }
            StoreOp::SetStrategy(s) => store.set_write_strategy(write_strategy(*s)),
            StoreOp::CacheEnabled(on) => {
                if *on {
                    store.enable_cache()
                } else {
                    store.disable_cache()
                }
            }
            StoreOp::GetUnknown(id) => {
                // an id the store never handed out (ids are compared through the twin only when
                // both stores numbered their blobs identically)
                if ids.iter().all(|(a, b, _)| a == b) && !ids.iter().any(|(a, _, _)| a == id) {
                    if let Some(r) = ctx.no_panic("get", || store.get(*id)) {
                        same_result(ctx, "get", "unknown_id", r, twin.get(*id));
                    }
                }
            }
            StoreOp::ForeignRead { page } => {
                if let Some((cache, f)) = &foreign {
                    if let Some(id) = f.id {
                        let off = (*page as u64 * PAGE).min(f.size.saturating_sub(1)) + 3;
                        let len = ((PAGE + 100) as usize).min((f.size - off.min(f.size)) as usize);
                        if let Some(Ok(b)) = ctx.no_panic("foreign_read", || cache.read(id, off, len)) {
                            check_range(ctx, "foreign_read", seed, f, off, len, b.data(), "");
                        }
                    }
                }
            }
        }
    }
    // final sweep: every id ever handed out, both directions
    for (a, b, live) in &ids {
        if let Some(r) = ctx.no_panic("get", || store.get(*a)) {
            same_result(ctx, "get", if *live { "live" } else { "removed" }, r, twin.get(*b));
        }
    }
    if total > cap_pages * PAGE as usize {
        ctx.label("store:blobs_exceed_cache");
    }
    if total > cap_pages * PAGE as usize && gets_after_remove > 0 && big_blobs > 0 {
        ctx.nontrivial();
    }
    drop(store);
    if let Some((cache, f)) = foreign {
        if let Some(id) = f.id {
            let _ = cache.close_file(id);
        }
        let _ = std::fs::remove_file(&f.path);
    }
}

// ---------------------------------------------------------------------------------------
// FSA state cache
// ---------------------------------------------------------------------------------------

fn run_fsa_case(ctx: &mut Ctx, max_states: u8, strategy: u8, ops: &[FsaOp]) {
    let max_states = max_states.max(1) as usize;
    let strat = match strategy % 3 {
        0 => CacheStrategy::BreadthFirst,
        1 => CacheStrategy::DepthFirst,
        _ => CacheStrategy::CacheFriendly,
    };
    ctx.label(format!("fsa:{strat:?}"));
    let cfg = FsaCacheConfig { max_states, strategy: strat, ..FsaCacheConfig::small() };
    let mut cache = match ctx.no_panic("new", || FsaCache::with_config(cfg)) {
        Some(Ok(c)) => c,
        Some(Err(e)) => {
            ctx.fail("new", "err", "", format!("{e}"));
            return;
        }
        None => return,
    };
    // model: live state id -> (child_base, parent, terminal); zero paths of live ids
    let mut live: HashMap<u32, (u32, u32, bool)> = HashMap::new();
    let mut zp: HashMap<u32, Vec<u8>> = HashMap::new();
    let mut seen: Vec<u32> = vec![];
    let (mut evictions, mut reused_after_evict) = (0usize, false);
    let mut dead: HashSet<u32> = HashSet::new();
    for (step, op) in ops.iter().enumerate() {
        if ctx.saturated() {
            break;
        }
        match op {
            FsaOp::Cache { parent, child_base, terminal } => {
                let was_full = live.len() >= max_states;
                let Some(r) = ctx.no_panic("cache_state", || cache.cache_state(*parent, *child_base, *terminal)) else { return };
                let id = match r {
                    Ok(id) => id,
                    Err(e) => {
                        ctx.fail("cache_state", "err", "", format!("step {step}: {e}"));
                        continue;
                    }
                };
                // which states did the cache drop to make room?
                let mut gone = vec![];
                for (&sid, want) in live.iter() {
                    if sid == id {
                        continue;
                    }
                    match cache.get_state(sid) {
                        None => gone.push(sid),
                        Some(st) => {
                            ctx.eq("get_state", "after_insert", &(st.child_base, st.parent(), st.is_terminal()), want);
                        }
                    }
                }
                // an id that named a retrievable state may come back only as "evicted to make
                // room, then recycled" - i.e. when the cache was full
                if live.contains_key(&id) {
                    ctx.ensure("cache_state", "reused_live_id", was_full, || {
                        format!("step {step}: cache_state returned id {id}, which still named the retrievable state {:?} while the cache held {} of {max_states} states", live.get(&id), live.len())
                    });
                    gone.push(id);
                }
                if !gone.is_empty() {
                    ctx.ensure("evict", "not_full", was_full, || format!("step {step}: states {gone:?} disappeared although the cache held {} of {max_states} states", live.len()));
                    evictions += gone.len();
                }
                for g in gone {
                    live.remove(&g);
                    zp.remove(&g);
                    dead.insert(g);
                }
                if dead.remove(&id) {
                    reused_after_evict = true;
                }
                zp.remove(&id);
                live.insert(id, (*child_base, *parent & 0x00FF_FFFF, *terminal));
                if !seen.contains(&id) {
                    seen.push(id);
                }
                ctx.ensure("capacity_bound", "", live.len() <= max_states, || format!("step {step}: {} states retrievable, max_states = {max_states}", live.len()));
                let st = cache.stats();
                ctx.eq("stats_cached_states", "", &st.cached_states, &live.len());
                // a recycled id must not inherit the zero path of its previous owner
                ctx.ensure("zero_path", "stale_after_id_reuse", cache.get_zero_path(id).is_none(), || format!("step {step}: fresh state {id} already has a zero path"));
            }
            FsaOp::Get(i) | FsaOp::Probe(i) => {
                let id = if let (FsaOp::Get(_), false) = (op, seen.is_empty()) { seen[idx(*i, seen.len())] } else { *i as u32 % 40 };
                let got = cache.get_state(id).map(|st| (st.child_base, st.parent(), st.is_terminal()));
                ctx.eq("get_state", if live.contains_key(&id) { "live" } else { "dead" }, &got, &live.get(&id).copied());
            }
            FsaOp::Remove(i) => {
                if seen.is_empty() {
                    continue;
                }
                let id = seen[idx(*i, seen.len())];
                let Some(r) = ctx.no_panic("remove_state", || cache.remove_state(id)) else { return };
                ctx.eq("remove_state", "", &r, &live.contains_key(&id));
                if live.remove(&id).is_some() {
                    dead.insert(id);
                }
                zp.remove(&id);
            }
            FsaOp::AddZeroPath { i, segs } => {
                if seen.is_empty() {
                    continue;
                }
                let id = seen[idx(*i, seen.len())];
                let mut z = ZeroPathData::new();
                let mut full = vec![];
                for s in segs {
                    if z.add_segment(&s.0).is_ok() {
                        full.extend_from_slice(&s.0);
                    }
                }
                let Some(r) = ctx.no_panic("add_zero_path", || cache.add_zero_path(id, z)) else { return };
                match r {
                    Ok(()) => {
                        if ctx.ensure("add_zero_path", "dead_state", live.contains_key(&id), || format!("step {step}: zero path accepted for state {id} which is not cached")) {
                            zp.insert(id, full);
                        }
                    }
                    Err(_) => {
                        ctx.ensure("add_zero_path", "live_state", !live.contains_key(&id), || format!("step {step}: zero path refused for the cached state {id}"));
                    }
                }
            }
            FsaOp::GetZeroPath(i) => {
                if seen.is_empty() {
                    continue;
                }
                let id = seen[idx(*i, seen.len())];
                let got = cache.get_zero_path(id).map(|z| z.get_full_path());
                ctx.eq("zero_path", if live.contains_key(&id) { "live" } else { "dead" }, &got, &zp.get(&id).cloned());
            }
            FsaOp::Clear => {
                if ctx.no_panic("clear", || cache.clear()).is_none() {
                    return;
                }
                for (id, _) in live.drain() {
                    dead.insert(id);
                }
                zp.clear();
                ctx.label("fsa:cleared");
            }
        }
    }
    // final sweep, both directions
    for id in 0..40u32 {
        let got = cache.get_state(id).map(|st| (st.child_base, st.parent(), st.is_terminal()));
        ctx.eq("get_state", if live.contains_key(&id) { "live" } else { "dead" }, &got, &live.get(&id).copied());
        let gz = cache.get_zero_path(id).map(|z| z.get_full_path());
        ctx.eq("zero_path", if live.contains_key(&id) { "live" } else { "dead" }, &gz, &zp.get(&id).cloned());
    }
    ctx.label(if evictions == 0 { "fsa:evictions:0" } else { "fsa:evictions:1+" });
    if evictions >= 2 && reused_after_evict {
        ctx.nontrivial();
    }
}

// ---------------------------------------------------------------------------------------
// Prop
// ---------------------------------------------------------------------------------------

impl Prop for P {
    fn id(&self) -> &'static str {
        "C17"
    }
    fn rule(&self) -> &'static str {
        "map cells: history = vec(Get|Put|Remove|Contains|Clear|Len) over 2-12 keys with capacity 1-8 (per shard), key space = capacity + 0..5 so nearly every put of a new key evicts; values are unique per put and name their key; non-trivial = >= 2 evictions in one (shard) model with, between two of them, a get that hit the entry that was least recently used at that moment (so the next victim changed); for the order-free cells (round robin with several shards, multi-threaded smoke) non-trivial = >= 2 eviction callbacks and a get hit after the first. page-cache cells: 1-3 scratch files of 2-40 pages (+ partial last page) whose byte at o is a keyed hash of (file, page version, o), cache of 1-8 pages, history = vec(Read|ReadBatch|Prefetch|ReadWithPrefetch|InvalidatePage|InvalidateRange|Modify(page rewritten on disk)|MarkDirty|Flush|Close|Reopen|Recheck kept buffers) with offsets at page boundaries +-2, EOF +-2, uniform, lengths 0 / small / k pages +-2 / to EOF +-d; non-trivial = >= 1 multi-page read that spans a page resident in an ideal LRU of the same capacity and a page that was loaded before and pushed out, AND >= 1 read of a page after it was invalidated. cached_store: non-trivial = total blob bytes exceed the cache, a blob larger than a page, and a get after remove. fsa_cache: non-trivial = >= 2 evicted states and an evicted id handed out again. distinct by hash of the case JSON"
    }
    fn assumptions(&self) -> Vec<String> {
        vec![
            "contains_key is not an access: the statement defines recency by get and put only, so the model does not move an entry on contains_key".into(),
            "the eviction callback is required exactly for evictions that make room for a put; remove() must not invoke it; callbacks during clear() or Drop are tolerated when they name an entry that was present (Drop's comment says clear 'will trigger eviction callbacks', the statement does not cover it)".into(),
            "put() returning Err is reported (aspect put, kind err) because the statement requires that room is made by eviction; the model then keeps the map unchanged and the history continues".into(),
            "hash sharding: the key -> shard function is learned from shard_sizes() deltas (or from the shard of the victim named by the callback) and must then stay fixed; with ThreadAffinity every key of a single-threaded history lives in one shard of capacity total/shards; with RoundRobin and more than one shard only the order-free map clauses are asserted".into(),
            "multi-threaded smoke: only schedule-independent clauses (a returned value was put for that very key; a thread-private key behaves sequentially up to evictions witnessed by the callback log; each stored value has exactly one fate; callback log has no duplicates; len <= capacity). clear() is not generated there. A stall is reported only when no operation started for >= 1 s and every thread of the case is in state S in /proc (blocked, not descheduled)".into(),
            "page cache: a read wholly inside the file must return exactly the file bytes; a read that crosses EOF must return the bytes up to EOF (Err is accepted for any request reaching beyond the file); a page rewritten on disk may be served in any version written since the last invalidation / reopen of that page, and only the current version afterwards; hit/miss type, statistics and the number of resident pages are not asserted".into(),
            "a read on a closed file id must return Err or no bytes (close_file documents that the cached pages are cleared); closing twice, prefetch results and mark_dirty/flush_file results are not asserted".into(),
            "cached store: ids are compared through a per-blob id pair, not assumed equal; Err vs Err is equal regardless of message".into(),
            "FsaCache: which states are evicted is strategy-defined and not asserted; asserted are: a retrievable state has the fields it was cached with, a new id never names a still-retrievable state, states disappear only when the cache was full, zero paths never outlive their state, at most max_states states are retrievable. Parent ids are generated below 2^24 (the documented field width)".into(),
        ]
    }
    fn cpu_budget_s(&self) -> u64 {
        20
    }
    fn plans(&self, tier: Tier) -> Vec<Plan> {
        let mut v = vec![];
        for c in CELLS {
            let cases = tier.pick(c.quick, c.quick * 10);
            let cases_b = tier.pick(c.quick * c.b_permille / 1000, c.quick * 10 * c.b_permille / 2000);
            let s = match c.kind {
                Kind::Map(_) => map_case(tier.pick(60, 200), 1),
                Kind::Conc(0 | 1, sh) => map_case(tier.pick(60, 200) * if sh >= 4 { 2 } else { 1 }, sh),
                Kind::Conc(..) => map_case(tier.pick(60, 200), 1),
                Kind::Mt => mt_case(tier.pick(40, 120)),
                Kind::Page(_) | Kind::PageSingle => page_case(tier.pick(40, 120), tier.pick(24, 40) as u8),
                Kind::Store(_) => store_case(tier.pick(40, 120)),
                Kind::Fsa => fsa_case(tier.pick(60, 200)),
            };
            v.push(Plan::new(c.name, cases, cases_b, s));
        }
        v
    }
    fn run(&self, case: &Value, ctx: &mut Ctx) {
        let c: Case = decode(case);
        let cell = ctx.cell.clone();
        let Some(cd) = CELLS.iter().find(|x| x.name == cell) else {
            ctx.skip(format!("unknown cell {cell}"));
            return;
        };
        match (&c, cd.kind) {
            (Case::Map { cap, nkeys, ops }, Kind::Map(_) | Kind::Conc(..)) => run_map_case(ctx, cd.kind, *cap, *nkeys, ops),
            (Case::Mt { shards, strat, cap, npriv, nshared, progs }, Kind::Mt) => run_mt_case(ctx, *shards, *strat, *cap, *npriv, *nshared, progs),
            (Case::Page { shards, cap_pages, seed, files, ops }, Kind::Page(_) | Kind::PageSingle) => run_page_case(ctx, cd.kind, *shards, *cap_pages, *seed, files, ops),
            (Case::Store { cap_pages, shared_cache, seed, ops }, Kind::Store(s)) => run_store_case(ctx, s, *cap_pages, *shared_cache, *seed, ops),
            (Case::Fsa { max_states, strategy, ops }, Kind::Fsa) => run_fsa_case(ctx, *max_states, *strategy, ops),
            _ => ctx.skip("case shape does not match the cell"),
        }
    }
}
