//! C19 — file-backed structures reopen as written; damaged files are refused.
//!
//! One case = (cell, generated write history with sync/finish points, fault selector).
//!
//! * phase 1 (writer): the history is executed against the real structure on a file in
//!   `ctx.scratch`; at every sync point the harness snapshots the file bytes `S_j` together with
//!   the logical content `L_j` kept by an independent model (a `Vec`, a `BTreeMap`, a byte
//!   buffer).  The writer object is then dropped.
//! * phase 2 (fault): from the snapshots one damaged file is built as selected by the case
//!   (truncation, block mixture of `S_{p-1}`/`S_p`, header swap, zero-filled tail, canary
//!   bytes after the logical end); the `AllTruncations` selector loops over every length.
//! * phase 3 (reader): the file is reopened through the public open/load API and *everything* is
//!   read (len, every element, iterators to the end) under `engine::try_call`.
//!
//! Oracle: every snapshot `S_j` reopens as exactly `L_j` (clean path); a damaged file built for
//! crash point `p` is refused (`Err`) or reopens as some `L_j, j <= p`; never a panic, never
//! bytes that no sync point ever contained.  A SIGSEGV/SIGBUS kills the worker and is reported
//! by the supervisor as `<cell>/exec/crash/<signal>`.

use crate::engine::{clip, decode, try_call, Ctx, PanicInfo, Plan, Prop, Tier};
use crate::gen::{self, idx, Payload, Xs};
use proptest::prelude::*;
use serde::{Deserialize, Serialize};
use serde_json::Value;
use std::collections::BTreeMap;
use std::path::{Path, PathBuf};
use zipora::blob_store::{
    BlobStore, IterableBlobStore, PlainBlobStore, ZReorderMap, ZReorderMapBuilder, ZipOffsetBlobStore, ZipOffsetBlobStoreBuilder,
    ZipOffsetBlobStoreConfig,
};
use zipora::compression::dict_zip::{SuffixArrayDictionary, SuffixArrayDictionaryConfig};
use zipora::io::{DataInput, DataOutput, MemoryMappedInput, MemoryMappedOutput};
use zipora::memory::{MmapVec, MmapVecConfig};

pub struct P;

/// one element / record in byte form; up to 24 bytes are stored inline (a `Vec<u8>` per
/// one-byte vector element made `all_truncations` allocation-bound)
#[derive(Clone)]
enum Rec {
    Inline(u8, [u8; 24]),
    Heap(Vec<u8>),
}

fn rec(b: &[u8]) -> Rec {
    if b.len() <= 24 {
        let mut a = [0u8; 24];
        a[..b.len()].copy_from_slice(b);
        Rec::Inline(b.len() as u8, a)
    } else {
        Rec::Heap(b.to_vec())
    }
}

impl std::ops::Deref for Rec {
    type Target = [u8];
    fn deref(&self) -> &[u8] {
        match self {
            Rec::Inline(n, a) => &a[..*n as usize],
            Rec::Heap(v) => v,
        }
    }
}
impl PartialEq for Rec {
    fn eq(&self, o: &Rec) -> bool {
        **self == **o
    }
}
impl Eq for Rec {}

/// canonical logical content: a sequence of elements / records in byte form
type Logical = Vec<Rec>;

const CANARY: u8 = 0xC5;
const REORDER_MAX: u64 = 0x7F_FFFF_FFFF;

#[derive(Clone)]
struct Snap {
    file: Vec<u8>,
    logical: Logical,
    /// first byte of the file that is not vouched for by the header (== file.len() when the
    /// format has no slack region)
    logical_end: usize,
}

struct ReadOut {
    content: Logical,
    /// internal inconsistencies of the reopened object (short deterministic names)
    notes: Vec<&'static str>,
    /// informational labels (strategy chosen by the library ...)
    labels: Vec<String>,
}

impl ReadOut {
    fn new() -> ReadOut {
        ReadOut { content: vec![], notes: vec![], labels: vec![] }
    }
    fn note(&mut self, n: &'static str) {
        if !self.notes.contains(&n) {
            self.notes.push(n);
        }
    }
}

// ---------------------------------------------------------------------------------------
// case types
// ---------------------------------------------------------------------------------------

#[derive(Clone, Debug, Serialize, Deserialize)]
pub enum Fault {
    /// reopen the file exactly as the writer left it
    Clean,
    /// cut `S_p` at `frac` mapped monotonically onto `0..=len`
    Truncate { at: u16, frac: u32 },
    /// cut `S_p` next to an anchor (header end, logical end, 512 B / 4 KiB / 64 KiB boundary)
    TruncNear { at: u16, anchor: u8, k: u8, delta: i8 },
    /// every length when `|S_p| <= 8 KiB`, else header region + every block boundary +-1 + a sample
    AllTruncations { at: u16, seed: u64 },
    /// block-granular mixture of `S_{p-1}` and `S_p` (subset mask over 4 KiB or 512 B blocks)
    Mix { at: u16, small: bool, mask: u64, len_new: bool, canary: bool },
    /// the first `upto` blocks are new, the rest old (sequential write-back interrupted)
    MixPrefix { at: u16, small: bool, upto: u16, len_new: bool, canary: bool },
    /// header of one snapshot over the data of the other
    HeaderSwap { at: u16, new_header: bool, len_new: bool, canary: bool },
    /// `S_p` extended to its full length but zero from `frac` on
    ZeroTail { at: u16, frac: u32 },
    /// `S_p` with canary bytes in the slack after the logical end and appended after EOF
    Canary { at: u16, append: u16 },
    /// the file as it is on disk just before `finish()` (builders only)
    Unfinished,
}

impl Fault {
    fn class(&self) -> &'static str {
        match self {
            Fault::Clean => "clean",
            Fault::Truncate { .. } | Fault::TruncNear { .. } => "truncate",
            Fault::AllTruncations { .. } => "all_truncations",
            Fault::Mix { small: false, .. } => "mix4k",
            Fault::Mix { small: true, .. } => "mix512",
            Fault::MixPrefix { .. } => "mixprefix",
            Fault::HeaderSwap { new_header: true, .. } => "hdr_new_data_old",
            Fault::HeaderSwap { new_header: false, .. } => "hdr_old_data_new",
            Fault::ZeroTail { .. } => "zero_tail",
            Fault::Canary { .. } => "canary",
            Fault::Unfinished => "unfinished",
        }
    }
    fn at(&self) -> u16 {
        match self {
            Fault::Clean | Fault::Unfinished => 0,
            Fault::Truncate { at, .. }
            | Fault::TruncNear { at, .. }
            | Fault::AllTruncations { at, .. }
            | Fault::Mix { at, .. }
            | Fault::MixPrefix { at, .. }
            | Fault::HeaderSwap { at, .. }
            | Fault::ZeroTail { at, .. }
            | Fault::Canary { at, .. } => *at,
        }
    }
}

#[derive(Clone, Debug, Serialize, Deserialize)]
pub enum VOp {
    Push(u64),
    Extend { n: usize, seed: u64 },
    Resize { to: usize, v: u64 },
    Truncate(u16),
    Reserve(usize),
    Shrink,
    Pop,
    Clear,
    Sync,
    /// overwrite the elements [a, b) in place (`fill_range_simd`); positions are fractions of len
    Fill { a: u16, b: u16, v: u64 },
    /// overwrite one element through `get_mut`
    Set { i: u16, v: u64 },
}

#[derive(Clone, Debug, Serialize, Deserialize)]
pub struct RGen {
    neg: bool,
    /// (start, length, strided): a strided run emits start, start+-2, start+-4, ... (all singles)
    runs: Vec<(u64, u16, bool)>,
}

#[derive(Clone, Debug, Serialize, Deserialize)]
pub enum POp {
    Put(Payload),
    Remove(u16),
    Reopen,
}

#[derive(Clone, Debug, Serialize, Deserialize)]
pub enum PFault {
    Clean,
    /// the directory exactly as it was after operation `to`
    Rollback { to: u16 },
    /// files created / removed since operation `since`: any subset of those changes is missing
    Missing { since: u16, mask: u64 },
    /// one record file is cut short
    TruncRecord { which: u16, frac: u32 },
    /// one record file exists but is empty (created, not yet written)
    EmptyRecord { which: u16 },
}

#[derive(Clone, Debug, Serialize, Deserialize)]
pub enum IOp {
    Bytes(Payload),
    U8(u8),
    U32(u32),
    U64(u64),
    Var(u64),
    LpStr(String),
    Seek(u16),
    Flush,
    TruncateHere,
}

#[derive(Clone, Debug, Serialize, Deserialize)]
pub enum Case {
    /// ty: 0 = u8, 1 = u64, 2 = [u8; 24]; preset: see `vec_config`
    MmapVec { ty: u8, preset: u8, cap: u16, growth: u8, ro_reopen: bool, ops: Vec<VOp>, fault: Fault },
    ZipOffset { preset: u8, gens: Vec<Vec<Payload>>, fault: Fault },
    Reorder { gens: Vec<RGen>, fault: Fault },
    Plain { ops: Vec<POp>, fault: PFault },
    SaDict { gens: Vec<(Payload, u8, u16)>, fault: Fault },
    IoMmap { initial: usize, ops: Vec<IOp>, chunk: u16, fault: Fault },
}

// ---------------------------------------------------------------------------------------
// generators
// ---------------------------------------------------------------------------------------

fn at_strategy() -> BoxedStrategy<u16> {
    prop_oneof![3 => Just(0u16), 2 => any::<u16>()].boxed()
}

fn frac_strategy() -> BoxedStrategy<u32> {
    prop_oneof![
        4 => any::<u32>(),
        1 => Just(0u32),
        1 => Just(u32::MAX),
        2 => (0u32..64).prop_map(|k| k << 20),                       // the first bytes (header region)
        2 => (0u32..4096).prop_map(|k| u32::MAX - (k << 8)),          // the last bytes
    ]
    .boxed()
}

fn fault_strategy(all_trunc_weight: u32, unfinished: bool) -> BoxedStrategy<Fault> {
    let unf = if unfinished { 2 } else { 0 };
    prop_oneof![
        2 => Just(Fault::Clean),
        4 => (at_strategy(), frac_strategy()).prop_map(|(at, frac)| Fault::Truncate { at, frac }),
        4 => (at_strategy(), 0u8..5, 0u8..20, -3i8..=3).prop_map(|(at, anchor, k, delta)| Fault::TruncNear { at, anchor, k, delta }),
        all_trunc_weight => (at_strategy(), any::<u64>()).prop_map(|(at, seed)| Fault::AllTruncations { at, seed }),
        3 => (at_strategy(), any::<bool>(), prop_oneof![any::<u64>(), (0u32..64).prop_map(|b| 1u64 << b), (0u32..64).prop_map(|b| !(1u64 << b))], any::<bool>(), any::<bool>())
            .prop_map(|(at, small, mask, len_new, canary)| Fault::Mix { at, small, mask, len_new, canary }),
        2 => (at_strategy(), any::<bool>(), any::<u16>(), any::<bool>(), any::<bool>())
            .prop_map(|(at, small, upto, len_new, canary)| Fault::MixPrefix { at, small, upto, len_new, canary }),
        4 => (at_strategy(), any::<bool>(), any::<bool>(), any::<bool>())
            .prop_map(|(at, new_header, len_new, canary)| Fault::HeaderSwap { at, new_header, len_new, canary }),
        2 => (at_strategy(), frac_strategy()).prop_map(|(at, frac)| Fault::ZeroTail { at, frac }),
        1 => (at_strategy(), 0u16..300).prop_map(|(at, append)| Fault::Canary { at, append }),
        unf => Just(Fault::Unfinished),
    ]
    .boxed()
}

const U8_BLOCKS: &[usize] = &[432, 944, 4016, 8112, 16304, 65456];
const U64_BLOCKS: &[usize] = &[54, 118, 502, 1014, 2038, 8182];
const A24_BLOCKS: &[usize] = &[18, 39, 167, 338, 679, 2727];

fn vop_strategy(ty: u8, small_only: bool, cap_hint: usize) -> BoxedStrategy<VOp> {
    let (blocks, max): (&'static [usize], usize) = match ty {
        0 => (U8_BLOCKS, 70_000),
        1 => (U64_BLOCKS, 9_000),
        _ => (A24_BLOCKS, 3_000),
    };
    // sizes that cross the preset's initial capacity (file growth between sync points)
    let over: Vec<usize> = vec![cap_hint + 1, cap_hint + 2, cap_hint * 2 + 1, cap_hint + cap_hint / 2 + 1];
    // ... and sizes whose data extends past the 64 KiB minimum allocation of MmapVec::create_mmap
    let past64k: &[usize] = match ty {
        0 => &[65_457, 65_500, 70_000],
        1 => &[8_183, 8_200, 9_000],
        _ => &[2_728, 3_000],
    };
    let mut over_n: Vec<usize> = over.iter().copied().filter(|x| *x <= max.max(20_000)).collect();
    if !small_only {
        over_n.extend_from_slice(past64k);
    }
    let n: BoxedStrategy<usize> = if small_only {
        (0usize..=24).boxed()
    } else if over_n.is_empty() {
        prop_oneof![3 => 0usize..=40, 2 => gen::size_around(blocks, max)].boxed()
    } else {
        prop_oneof![3 => 0usize..=40, 2 => gen::size_around(blocks, max), 3 => proptest::sample::select(over_n.clone())].boxed()
    };
    let to: BoxedStrategy<usize> = if small_only {
        (0usize..=48).boxed()
    } else if over_n.is_empty() {
        prop_oneof![2 => 0usize..=60, 2 => gen::size_around(blocks, max)].boxed()
    } else {
        prop_oneof![2 => 0usize..=60, 2 => gen::size_around(blocks, max), 1 => proptest::sample::select(over_n)].boxed()
    };
    let reserve: BoxedStrategy<usize> = prop_oneof![1 => 0usize..=40, 3 => proptest::sample::select(over), 1 => 0usize..=3000].boxed();
    prop_oneof![
        4 => any::<u64>().prop_map(VOp::Push),
        4 => (n, any::<u64>()).prop_map(|(n, seed)| VOp::Extend { n, seed }),
        2 => (to, any::<u64>()).prop_map(|(to, v)| VOp::Resize { to, v }),
        2 => any::<u16>().prop_map(VOp::Truncate),
        2 => reserve.prop_map(VOp::Reserve),
        1 => Just(VOp::Shrink),
        1 => Just(VOp::Pop),
        1 => Just(VOp::Clear),
        2 => (any::<u16>(), any::<u16>(), any::<u64>()).prop_map(|(a, b, v)| VOp::Fill { a, b, v }),
        1 => (any::<u16>(), any::<u64>()).prop_map(|(i, v)| VOp::Set { i, v }),
    ]
    .boxed()
}

/// 1..=3 segments of a few operations, each closed by a sync point
fn vops_strategy(ty: u8, small_only: bool, cap_hint: usize, seg_ops: usize) -> BoxedStrategy<Vec<VOp>> {
    prop_oneof![1 => Just(1usize), 4 => Just(2usize), 3 => Just(3usize), 1 => Just(4usize)]
        .prop_flat_map(move |nseg| proptest::collection::vec(proptest::collection::vec(vop_strategy(ty, small_only, cap_hint), 1..=seg_ops), nseg..=nseg))
        .prop_map(|segs| {
            let mut v = vec![];
            for s in segs {
                v.extend(s);
                v.push(VOp::Sync);
            }
            v
        })
        .boxed()
}

fn record_payload(max: usize) -> BoxedStrategy<Payload> {
    gen::payload(prop_oneof![3 => 0usize..=24, 2 => gen::size_around(&[64, 512], max)].boxed(), 24)
}

fn rgen_strategy(max_runs: usize) -> BoxedStrategy<RGen> {
    let start = prop_oneof![
        3 => 0u64..300,
        2 => (0u64..300).prop_map(|d| REORDER_MAX - d),
        2 => any::<u64>().prop_map(|v| v & REORDER_MAX),
        1 => (0u32..39, 0u64..3).prop_map(|(s, d)| ((1u64 << s) + d).saturating_sub(1)),
    ];
    let len = prop_oneof![
        4 => Just(1u16),
        3 => 2u16..6,
        2 => proptest::sample::select(vec![126u16, 127, 128, 129, 255, 256, 16383, 16384, 16385]),
        1 => 1u16..2000,
    ];
    (any::<bool>(), proptest::collection::vec((start, len, proptest::bool::weighted(0.25)), 0..=max_runs)).prop_map(|(neg, runs)| RGen { neg, runs }).boxed()
}

fn iop_strategy() -> BoxedStrategy<IOp> {
    prop_oneof![
        4 => gen::payload(prop_oneof![3 => 0usize..=40, 2 => gen::size_around(&[512, 4096], 12_000)].boxed(), 16).prop_map(IOp::Bytes),
        1 => any::<u8>().prop_map(IOp::U8),
        1 => any::<u32>().prop_map(IOp::U32),
        1 => any::<u64>().prop_map(IOp::U64),
        1 => gen::u64_boundary().prop_map(IOp::Var),
        1 => "[a-z0-9 é]{0,20}".prop_map(IOp::LpStr),
        1 => any::<u16>().prop_map(IOp::Seek),
        1 => Just(IOp::TruncateHere),
    ]
    .boxed()
}

/// 1..=4 segments of a few writes, each closed by `flush()` (a sync point)
fn iops_strategy() -> BoxedStrategy<Vec<IOp>> {
    prop_oneof![1 => Just(1usize), 4 => Just(2usize), 3 => Just(3usize), 1 => Just(4usize)]
        .prop_flat_map(|nseg| proptest::collection::vec(proptest::collection::vec(iop_strategy(), 1..=4), nseg..=nseg))
        .prop_map(|segs| {
            let mut v = vec![];
            for s in segs {
                v.extend(s);
                v.push(IOp::Flush);
            }
            v
        })
        .boxed()
}

const VEC_PRESETS: &[&str] = &["default", "memory_optimized", "performance_optimized", "persistent_cache", "realtime", "large_dataset", "tiny_growth"];
const VEC_TYPES: &[&str] = &["u8", "u64", "a24"];
const ZO_PRESETS: &[&str] = &["default", "performance_optimized", "raw"];

fn vec_config(preset: u8, cap: u16, growth: u8) -> MmapVecConfig {
    match preset {
        0 => MmapVecConfig::default(),
        1 => MmapVecConfig::memory_optimized(),
        2 => MmapVecConfig::performance_optimized(),
        3 => MmapVecConfig::persistent_cache(),
        4 => MmapVecConfig::realtime(),
        5 => MmapVecConfig::large_dataset(),
        _ => MmapVecConfig::builder()
            .with_initial_capacity((cap % 5) as usize)
            .with_growth_factor([1.0, 1.1, 1.5, 2.0][(growth % 4) as usize])
            .build(),
    }
}

// ---------------------------------------------------------------------------------------
// damaged-file construction
// ---------------------------------------------------------------------------------------

fn with_canary(s: &Snap) -> Vec<u8> {
    let mut f = s.file.clone();
    let from = s.logical_end.min(f.len());
    for b in &mut f[from..] {
        *b = CANARY;
    }
    f
}

fn mix_blocks(old: &[u8], new: &[u8], block: usize, len: usize, from_new: impl Fn(usize) -> bool) -> Vec<u8> {
    let mut out = vec![0u8; len];
    let nb = len.div_ceil(block);
    for j in 0..nb {
        let (a, b) = (j * block, ((j + 1) * block).min(len));
        let src = if from_new(j) { new } else { old };
        if a < src.len() {
            let e = b.min(src.len());
            out[a..e].copy_from_slice(&src[a..e]);
        }
    }
    out
}

/// lengths tried by `AllTruncations`
fn truncation_lengths(len: usize, header: usize, logical_end: usize, seed: u64) -> Vec<usize> {
    if len <= 8192 {
        return (0..=len).collect();
    }
    let mut v: Vec<usize> = (0..=(header + 64).min(len)).collect();
    let mut push = |x: i64| {
        if x >= 0 && (x as usize) <= len {
            v.push(x as usize);
        }
    };
    let mut b = 4096i64;
    while (b as usize) <= len + 4096 {
        for d in [-1, 0, 1] {
            push(b + d);
        }
        b += 4096;
    }
    for d in -2..=2 {
        push(logical_end as i64 + d);
        push(len as i64 + d);
        push(65536 + d);
    }
    let mut r = Xs(seed | 1);
    for _ in 0..64 {
        push(r.below(len as u64 + 1) as i64);
    }
    v.sort_unstable();
    v.dedup();
    v
}

struct Built {
    /// (damaged bytes, crash point p)
    files: Vec<Vec<u8>>,
    p: usize,
}

/// Build the damaged file(s) selected by `fault` from the snapshots.
fn build_damaged(fault: &Fault, snaps: &[Snap], header: usize, prefinish: Option<&Vec<u8>>) -> Built {
    let k = snaps.len() - 1;
    let p = k - idx(fault.at(), k + 1);
    let new = &snaps[p];
    let empty = Snap { file: vec![], logical: vec![], logical_end: 0 };
    let old = if p > 0 { &snaps[p - 1] } else { &empty };
    let nlen = new.file.len();
    let cut = |frac: u32| ((frac as u64 * (nlen as u64 + 1)) >> 32) as usize;
    let files = match fault {
        Fault::Clean => vec![],
        Fault::Truncate { frac, .. } => vec![new.file[..cut(*frac)].to_vec()],
        Fault::TruncNear { anchor, k, delta, .. } => {
            let base: i64 = match anchor {
                0 => header as i64,
                1 => new.logical_end as i64,
                2 => 512 * (*k as i64 + 1),
                3 => 4096 * (*k as i64 + 1),
                _ => 65536,
            };
            let t = (base + *delta as i64).clamp(0, nlen as i64) as usize;
            vec![new.file[..t].to_vec()]
        }
        Fault::AllTruncations { seed, .. } => truncation_lengths(nlen, header, new.logical_end, *seed).into_iter().map(|t| new.file[..t].to_vec()).collect(),
        Fault::Mix { small, mask, len_new, canary, .. } => {
            let block = if *small { 512 } else { 4096 };
            let (o, n) = if *canary { (with_canary(old), with_canary(new)) } else { (old.file.clone(), new.file.clone()) };
            let len = if *len_new { n.len() } else { o.len() };
            let nb = len.div_ceil(block);
            let mask = *mask;
            if nb <= 64 {
                vec![mix_blocks(&o, &n, block, len, |j| (mask >> j) & 1 == 1)]
            } else {
                // more blocks than mask bits: the mask seeds a deterministic per-block choice
                let mut r = Xs(mask | 1);
                let pick: Vec<bool> = (0..nb).map(|_| r.next() & 1 == 1).collect();
                vec![mix_blocks(&o, &n, block, len, |j| pick[j])]
            }
        }
        Fault::MixPrefix { small, upto, len_new, canary, .. } => {
            let block = if *small { 512 } else { 4096 };
            let (o, n) = if *canary { (with_canary(old), with_canary(new)) } else { (old.file.clone(), new.file.clone()) };
            let len = if *len_new { n.len() } else { o.len() };
            let nb = len.div_ceil(block);
            let m = idx(*upto, nb + 1);
            vec![mix_blocks(&o, &n, block, len, |j| j < m)]
        }
        Fault::HeaderSwap { new_header, len_new, canary, .. } => {
            let (o, n) = if *canary { (with_canary(old), with_canary(new)) } else { (old.file.clone(), new.file.clone()) };
            let len = if *len_new { n.len() } else { o.len() };
            let (h, d) = if *new_header { (&n, &o) } else { (&o, &n) };
            let mut out = vec![0u8; len];
            for (i, b) in out.iter_mut().enumerate() {
                let src = if i < header { h } else { d };
                if i < src.len() {
                    *b = src[i];
                }
            }
            vec![out]
        }
        Fault::ZeroTail { frac, .. } => {
            let t = cut(*frac);
            let mut f = new.file.clone();
            for b in &mut f[t..] {
                *b = 0;
            }
            vec![f]
        }
        Fault::Canary { append, .. } => {
            let mut f = with_canary(new);
            f.extend(std::iter::repeat(CANARY).take(*append as usize));
            vec![f]
        }
        Fault::Unfinished => prefinish.map(|f| vec![f.clone()]).unwrap_or_default(),
    };
    let p = if matches!(fault, Fault::Unfinished) { k } else { p };
    Built { files, p }
}

// ---------------------------------------------------------------------------------------
// oracle
// ---------------------------------------------------------------------------------------

fn describe(l: &Logical) -> String {
    let total: usize = l.iter().map(|e| e.len()).sum();
    let head: Vec<String> = l.iter().take(6).map(|e| gen::hex(&e[..e.len().min(12)])).collect();
    format!("{} elements / {} bytes [{}{}]", l.len(), total, head.join(","), if l.len() > 6 { ",.." } else { "" })
}

/// How does `got` differ from every valid state?  (named classes only)
fn classify(got: &Logical, all: &[&Logical]) -> &'static str {
    if all.iter().any(|l| got.len() < l.len() && l[..got.len()] == got[..]) {
        return "prefix";
    }
    let mut foreign: Vec<(usize, &Rec)> = vec![];
    for (i, e) in got.iter().enumerate() {
        if !all.iter().any(|l| l.get(i) == Some(e)) {
            foreign.push((i, e));
        }
    }
    if foreign.is_empty() {
        return "torn";
    }
    if foreign.iter().any(|(_, e)| !e.is_empty() && e.iter().all(|b| *b == CANARY)) {
        return "canary";
    }
    if foreign.iter().all(|(i, e)| all.iter().any(|l| l.get(*i).map(|v| v.len() > e.len() && v[..e.len()] == e[..]).unwrap_or(false))) {
        return "short_record";
    }
    let zero_suffixed = |i: usize, e: &Rec| {
        e.iter().all(|b| *b == 0)
            || all.iter().any(|l| {
                l.get(i).map(|v| v.len() == e.len() && (0..e.len()).any(|m| v[..m] == e[..m] && e[m..].iter().all(|b| *b == 0))).unwrap_or(false)
            })
    };
    if foreign.iter().all(|(i, e)| zero_suffixed(*i, e)) {
        return "zeros";
    }
    if foreign.iter().any(|(_, e)| e.contains(&CANARY) && e.iter().filter(|b| **b == CANARY).count() * 2 >= e.len()) {
        return "canary";
    }
    "garbage"
}

type ReadRes = Result<Result<ReadOut, String>, PanicInfo>;

/// Clean path: `res` must be exactly `want`.  Returns what the implementation answered (for
/// resynchronising the damaged-path oracle) — `None` when it refused or panicked.
fn judge_clean(ctx: &mut Ctx, which: &str, res: ReadRes, want: &Logical) -> Option<Logical> {
    ctx.out.checks += 1;
    match res {
        Err(p) => {
            ctx.fail("clean", "panic", &format!("{which}:{}", p.class()), format!("{}:{}: {}", p.file, p.line, clip(&p.msg, 300)));
            None
        }
        Ok(Err(e)) => {
            ctx.fail("clean", "err", which, format!("reopening an undamaged file failed: {}", clip(&e, 300)));
            None
        }
        Ok(Ok(out)) => {
            for l in &out.labels {
                ctx.label(l.clone());
            }
            for n in &out.notes {
                ctx.fail("clean_consistency", "mismatch", &format!("{which}:{n}"), format!("reopened object is inconsistent with itself: {n}"));
            }
            if &out.content != want {
                let how = classify(&out.content, &[want]);
                ctx.fail("clean", "mismatch", &format!("{which}:{how}"), format!("got {} want {}", describe(&out.content), describe(want)));
            }
            Some(out.content)
        }
    }
}

/// Damaged path: refused, or one of `accept`; never a panic.
fn judge_damaged(ctx: &mut Ctx, fclass: &str, res: ReadRes, accept: &[&Logical], all: &[&Logical], what: &str) {
    ctx.out.checks += 1;
    match res {
        Err(p) => ctx.fail("reopen", "panic", &format!("{fclass}:{}", p.class()), format!("{what}: {}:{}: {}", p.file, p.line, clip(&p.msg, 300))),
        Ok(Err(_)) => ctx.label(format!("{fclass}:refused")),
        Ok(Ok(out)) => {
            for n in &out.notes {
                ctx.fail("reopen_consistency", "mismatch", &format!("{fclass}:{n}"), format!("{what}: reopened object is inconsistent with itself: {n}"));
            }
            if accept.iter().any(|l| **l == out.content) {
                ctx.label(format!("{fclass}:accepted_as_valid_state"));
            } else {
                let how = classify(&out.content, all);
                ctx.label(format!("{fclass}:accepted_as_invalid_state"));
                ctx.fail(
                    "reopen",
                    "mismatch",
                    &format!("{fclass}:{how}"),
                    format!("{what}: reopen succeeded with content that no sync point had: got {}; newest valid state {}", describe(&out.content), all.last().map(|l| describe(l)).unwrap_or_default()),
                );
            }
        }
    }
}

fn marker(s: &str) {
    // goes to the worker log: the supervisor attaches the log tail to a crash discrepancy
    eprintln!("C19 {s}");
}

/// The generic phases 2 + 3 for single-file cells.
#[allow(clippy::too_many_arguments)]
fn run_single_file(
    ctx: &mut Ctx,
    path: &Path,
    snaps: Vec<Snap>,
    prefinish: Option<Vec<u8>>,
    fault: &Fault,
    header: usize,
    magic: usize,
    raw_stream: bool,
    read: &dyn Fn(&Path) -> Result<ReadOut, String>,
) {
    if snaps.is_empty() {
        return;
    }
    let k = snaps.len() - 1;
    let lsize = |s: &Snap| s.logical.iter().map(|e| e.len() + 1).sum::<usize>();
    let grew = snaps.windows(2).any(|w| w[1].file.len() > w[0].file.len() || lsize(&w[1]) > lsize(&w[0]));
    let history_ok = snaps.len() >= 2 && grew;
    ctx.label(format!("sync_points_{}", match snaps.len() { 1 => "1", 2 => "2", 3 => "3", _ => "4+" }));
    ctx.label(format!("file_{}", match snaps[k].file.len() { 0..=4096 => "<=4K", 4097..=8192 => "<=8K", 8193..=65536 => "<=64K", 65537..=1048575 => "<1M", _ => ">=1M" }));
    if grew {
        ctx.label("file_grew_between_syncs");
    }
    ctx.label(format!("fault_{}", fault.class()));

    // ---- clean path: the file as the writer left it, then every earlier snapshot ----------
    marker(&format!("clean reopen of S_{k} ({} bytes) as left by the writer", snaps[k].file.len()));
    let mut valid: Vec<Option<Logical>> = vec![None; snaps.len()];
    let res = try_call(|| read(path));
    valid[k] = judge_clean(ctx, "final", res, &snaps[k].logical);
    for j in (0..k).rev() {
        if std::fs::write(path, &snaps[j].file).is_err() {
            ctx.skip("cannot write scratch file");
            return;
        }
        marker(&format!("clean reopen of S_{j} ({} bytes)", snaps[j].file.len()));
        let res = try_call(|| read(path));
        valid[j] = judge_clean(ctx, "earlier", res, &snaps[j].logical);
    }
    if matches!(fault, Fault::Clean) {
        if history_ok {
            ctx.nontrivial();
        }
        return;
    }

    // ---- damaged path -----------------------------------------------------------------------
    let built = build_damaged(fault, &snaps, header, prefinish.as_ref());
    let p = built.p;
    // valid states: what the model says, resynchronised to what the implementation answers for
    // the undamaged snapshot (a clean-path defect is reported once, above, and not again here)
    let mut states: Vec<Logical> = vec![];
    for j in 0..=p {
        states.push(snaps[j].logical.clone());
        if let Some(v) = &valid[j] {
            if *v != snaps[j].logical {
                states.push(v.clone());
            }
        }
    }
    let fclass = fault.class();
    let many = built.files.len() > 1;
    if many {
        ctx.out.extra_evals += built.files.len() as u64;
    }
    let mut any_nontrivial = false;
    for d in &built.files {
        if ctx.saturated() {
            break;
        }
        let is_snapshot = snaps.iter().any(|s| s.file == *d);
        let magic_ok = d.len() >= magic && d[..magic] == snaps[p].file[..magic.min(snaps[p].file.len())];
        if !is_snapshot && magic_ok {
            any_nontrivial = true;
        }
        if !many {
            ctx.label(format!("damaged_{}", if is_snapshot { "equals_a_snapshot" } else if magic_ok { "magic_intact" } else { "magic_gone" }));
        }
        if std::fs::write(path, d).is_err() {
            ctx.skip("cannot write scratch file");
            return;
        }
        let what = format!("{fclass} p={p}/{k} damaged_len={} (S_p is {} bytes, logical end {})", d.len(), snaps[p].file.len(), snaps[p].logical_end);
        marker(&format!("reopen damaged: {what}"));
        let res = try_call(|| read(path));
        if raw_stream {
            // a header-less byte stream: the reader must present exactly the bytes of the file
            let want: Logical = vec![rec(d)];
            judge_damaged(ctx, fclass, res, &[&want], &[&want], &what);
        } else {
            let refs: Vec<&Logical> = states.iter().collect();
            judge_damaged(ctx, fclass, res, &refs, &refs, &what);
        }
    }
    if history_ok && any_nontrivial {
        ctx.nontrivial();
    }
}


/// Where the files of a case live.  Every sync point of these structures is an `fsync`/`msync`
/// (6 ms+ on the disk that holds `ctx.scratch`, microseconds on tmpfs), so a RAM-backed
/// directory is used when one is available: `<VERIF_C19_SCRATCH or /dev/shm>/verif-c19/<run
/// dir>/<worker scratch name>`.  `VERIF_C19_SCRATCH=ctx` forces `ctx.scratch`.  The directory is
/// removed at the end of every case; directories left behind by a killed worker are collected
/// by the next worker (their supervisor's run directory is gone).
fn scratch_dir(ctx: &Ctx) -> PathBuf {
    let base = match std::env::var("VERIF_C19_SCRATCH") {
        Ok(s) if s == "ctx" => return ctx.scratch.clone(),
        Ok(s) if !s.is_empty() => PathBuf::from(s),
        _ => PathBuf::from("/dev/shm"),
    };
    if !base.is_dir() {
        return ctx.scratch.clone();
    }
    let root = base.join("verif-c19");
    let run = ctx.scratch.parent().and_then(|p| p.file_name()).map(|s| s.to_string_lossy().to_string()).unwrap_or_else(|| "run".into());
    let leaf = ctx.scratch.file_name().map(|s| s.to_string_lossy().to_string()).unwrap_or_else(|| "scratch".into());
    static GC: std::sync::Once = std::sync::Once::new();
    GC.call_once(|| {
        // collect what killed workers of finished runs left behind: `<name>-<supervisor pid>`
        if let Ok(rd) = std::fs::read_dir(&root) {
            for e in rd.flatten() {
                let name = e.file_name().to_string_lossy().to_string();
                if name == run {
                    continue;
                }
                let alive = name.rsplit('-').next().and_then(|p| p.parse::<u32>().ok()).map(|p| Path::new(&format!("/proc/{p}")).exists()).unwrap_or(false);
                if !alive {
                    let _ = std::fs::remove_dir_all(e.path());
                }
            }
        }
    });
    let dir = root.join(run).join(leaf);
    // (a sibling worker may be removing the empty run-level directory at this moment: retry)
    if (0..3).any(|_| std::fs::create_dir_all(&dir).is_ok()) {
        dir
    } else {
        ctx.scratch.clone()
    }
}

// ---------------------------------------------------------------------------------------
// cell: MmapVec<T>
// ---------------------------------------------------------------------------------------

trait Elem: Copy + PartialEq + 'static {
    const SIZE: usize;
    fn from_u64(v: u64) -> Self;
    fn bytes(&self) -> Rec;
}
impl Elem for u8 {
    const SIZE: usize = 1;
    fn from_u64(v: u64) -> u8 {
        v as u8
    }
    fn bytes(&self) -> Rec {
        rec(&[*self])
    }
}
impl Elem for u64 {
    const SIZE: usize = 8;
    fn from_u64(v: u64) -> u64 {
        v
    }
    fn bytes(&self) -> Rec {
        rec(&self.to_le_bytes())
    }
}
impl Elem for [u8; 24] {
    const SIZE: usize = 24;
    fn from_u64(v: u64) -> [u8; 24] {
        let mut a = [0u8; 24];
        a[..8].copy_from_slice(&v.to_le_bytes());
        a[8..16].copy_from_slice(&(!v).to_le_bytes());
        a[16..].copy_from_slice(&v.rotate_left(17).to_le_bytes());
        a
    }
    fn bytes(&self) -> Rec {
        rec(self)
    }
}

const VEC_HEADER: usize = 80;

fn vec_write<T: Elem>(ctx: &mut Ctx, path: &Path, cfg: MmapVecConfig, ops: &[VOp]) -> Option<Vec<Snap>> {
    let _ = std::fs::remove_file(path);
    let mut v = match try_call(|| MmapVec::<T>::create(path, cfg)) {
        Ok(Ok(v)) => v,
        Ok(Err(_)) => {
            ctx.label("create_refused");
            return None;
        }
        Err(_) => {
            ctx.label("create_panicked");
            return None;
        }
    };
    let mut model: Vec<T> = vec![];
    let mut snaps = vec![];
    let sync = VOp::Sync;
    for op in ops.iter().chain(std::iter::once(&sync)) {
        let r = try_call(|| -> zipora::Result<()> {
            match op {
                VOp::Push(x) => v.push(T::from_u64(*x)),
                VOp::Extend { n, seed } => {
                    let mut r = Xs(*seed | 1);
                    v.extend((0..*n).map(|_| T::from_u64(r.next())))
                }
                VOp::Resize { to, v: x } => v.resize(*to, T::from_u64(*x)),
                VOp::Truncate(i) => {
                    let l = idx(*i, v.len() + 1);
                    v.truncate(l)
                }
                VOp::Reserve(n) => v.reserve(*n),
                VOp::Shrink => v.shrink_to_fit(),
                VOp::Pop => {
                    v.pop();
                    Ok(())
                }
                VOp::Clear => v.clear(),
                VOp::Sync => v.sync(),
                VOp::Fill { a, b, v: x } => {
                    let (a, b) = (idx(*a, v.len() + 1), idx(*b, v.len() + 1));
                    v.fill_range_simd(a.min(b)..a.max(b), T::from_u64(*x))
                }
                VOp::Set { i, v: x } => {
                    if !v.is_empty() {
                        let i = idx(*i, v.len());
                        if let Some(slot) = v.get_mut(i) {
                            *slot = T::from_u64(*x);
                        }
                    }
                    Ok(())
                }
            }
        });
        match r {
            Ok(Ok(())) => {}
            Ok(Err(_)) => {
                ctx.label("write_op_refused");
                return None;
            }
            Err(_) => {
                ctx.label("write_op_panicked");
                return None;
            }
        }
        match op {
            VOp::Push(x) => model.push(T::from_u64(*x)),
            VOp::Extend { n, seed } => {
                let mut r = Xs(*seed | 1);
                model.extend((0..*n).map(|_| T::from_u64(r.next())));
            }
            VOp::Resize { to, v: x } => model.resize(*to, T::from_u64(*x)),
            VOp::Truncate(i) => {
                let l = idx(*i, model.len() + 1);
                model.truncate(l);
            }
            VOp::Pop => {
                model.pop();
            }
            VOp::Clear => model.clear(),
            VOp::Fill { a, b, v: x } => {
                let (a, b) = (idx(*a, model.len() + 1), idx(*b, model.len() + 1));
                for e in &mut model[a.min(b)..a.max(b)] {
                    *e = T::from_u64(*x);
                }
            }
            VOp::Set { i, v: x } => {
                if !model.is_empty() {
                    let i = idx(*i, model.len());
                    model[i] = T::from_u64(*x);
                }
            }
            VOp::Reserve(_) | VOp::Shrink => {}
            VOp::Sync => {
                let file = match std::fs::read(path) {
                    Ok(f) => f,
                    Err(e) => {
                        ctx.skip(format!("cannot read scratch file: {e}"));
                        return None;
                    }
                };
                // a sync that changed neither the file nor the logical content is not a new sync
                // point; a sync after which the file is unchanged although the content changed is
                // one (the file must now hold the content)
                let logical_now: Vec<_> = model.iter().map(|e| e.bytes()).collect::<Vec<_>>();
                let same_logical = snaps.last().map(|s: &Snap| s.logical.len() == logical_now.len() && s.logical.iter().zip(logical_now.iter()).all(|(x, y)| x == y)).unwrap_or(false);
                if snaps.last().map(|s: &Snap| s.file != file).unwrap_or(true) || !same_logical {
                    if snaps.len() >= 6 {
                        snaps.remove(0);
                    }
                    snaps.push(Snap { logical_end: (VEC_HEADER + model.len() * T::SIZE).min(file.len()), file, logical: model.iter().map(|e| e.bytes()).collect() });
                }
            }
        }
    }
    drop(v);
    Some(snaps)
}

fn vec_read<T: Elem>(path: &Path, ro: bool) -> Result<ReadOut, String> {
    let cfg = if ro { MmapVecConfig::read_only() } else { MmapVecConfig::default() };
    let v = MmapVec::<T>::open(path, cfg).map_err(|e| e.to_string())?;
    let mut out = ReadOut::new();
    let n = v.len();
    if n > 50_000_000 {
        out.note("len_absurd");
        return Ok(out);
    }
    if v.capacity() < n {
        out.note("capacity<len");
    }
    if v.is_empty() != (n == 0) {
        out.note("is_empty");
    }
    for i in 0..n {
        match v.get(i) {
            Some(e) => out.content.push(e.bytes()),
            None => {
                out.note("get_none_below_len");
                break;
            }
        }
    }
    if v.get(n).is_some() {
        out.note("get_some_at_len");
    }
    let s = v.as_slice();
    if s.len() != n || s.iter().zip(&out.content).any(|(a, b)| a.bytes() != *b) {
        out.note("as_slice_differs_from_get");
    }
    let mut cnt = 0usize;
    let mut same = true;
    for e in &v {
        if out.content.get(cnt).map(|b| *b != e.bytes()).unwrap_or(true) {
            same = false;
        }
        cnt += 1;
    }
    if cnt != n || !same {
        out.note("iter_differs_from_get");
    }
    Ok(out)
}

fn run_mmap_vec<T: Elem>(ctx: &mut Ctx, preset: u8, cap: u16, growth: u8, ro: bool, ops: &[VOp], fault: &Fault) {
    let path = scratch_dir(ctx).join("c19_vec.mmap");
    let cfg = vec_config(preset, cap, growth);
    if let Some(snaps) = vec_write::<T>(ctx, &path, cfg, ops) {
        ctx.label(if ro { "reopen_read_only_config" } else { "reopen_default_config" });
        run_single_file(ctx, &path, snaps, None, fault, VEC_HEADER, 8, false, &|p| vec_read::<T>(p, ro));
    }
    let _ = std::fs::remove_file(&path);
}

// ---------------------------------------------------------------------------------------
// cell: ZipOffsetBlobStore file
// ---------------------------------------------------------------------------------------

fn zo_config(preset: u8) -> ZipOffsetBlobStoreConfig {
    match preset {
        0 => ZipOffsetBlobStoreConfig::default(),
        1 => ZipOffsetBlobStoreConfig::performance_optimized(),
        _ => ZipOffsetBlobStoreConfig { compress_level: 0, checksum_level: 0, ..ZipOffsetBlobStoreConfig::default() },
    }
}

fn zo_read(path: &Path) -> Result<ReadOut, String> {
    let s = ZipOffsetBlobStore::load_from_file(path).map_err(|e| e.to_string())?;
    let mut out = ReadOut::new();
    let n = s.len();
    if n > 10_000_000 {
        out.note("len_absurd");
        return Ok(out);
    }
    if s.is_empty() != (n == 0) {
        out.note("is_empty");
    }
    for i in 0..n {
        match s.get(i as u32) {
            Ok(r) => {
                if s.size(i as u32).ok().flatten() != Some(r.len()) {
                    out.note("size_differs_from_get");
                }
                out.content.push(rec(&r));
            }
            Err(_) => {
                out.note("get_err_below_len");
                break;
            }
        }
        if !s.contains(i as u32) {
            out.note("contains_false_below_len");
        }
    }
    if s.get(n as u32).is_ok() || s.contains(n as u32) {
        out.note("record_at_len");
    }
    Ok(out)
}

fn run_zip_offset(ctx: &mut Ctx, preset: u8, gens: &[Vec<Payload>], fault: &Fault) {
    let path = scratch_dir(ctx).join("c19_zipoffset.bin");
    let _ = std::fs::remove_file(&path);
    let mut snaps = vec![];
    for g in gens {
        let recs: Vec<Vec<u8>> = g.iter().map(|p| p.bytes()).collect();
        let r = try_call(|| -> zipora::Result<()> {
            let mut b = ZipOffsetBlobStoreBuilder::with_config(zo_config(preset))?;
            for r in &recs {
                b.add_record(r)?;
            }
            let store = b.finish()?;
            store.save_to_file(&path)
        });
        match r {
            Ok(Ok(())) => {}
            Ok(Err(_)) => {
                ctx.label("write_op_refused");
                let _ = std::fs::remove_file(&path);
                return;
            }
            Err(_) => {
                ctx.label("write_op_panicked");
                let _ = std::fs::remove_file(&path);
                return;
            }
        }
        let Ok(file) = std::fs::read(&path) else {
            ctx.skip("cannot read scratch file");
            return;
        };
        snaps.push(Snap { logical_end: file.len(), file, logical: recs.iter().map(|r| rec(r)).collect() });
    }
    run_single_file(ctx, &path, snaps, None, fault, 128, 40, false, &zo_read);
    let _ = std::fs::remove_file(&path);
}

// ---------------------------------------------------------------------------------------
// cell: ZReorderMap
// ---------------------------------------------------------------------------------------

fn rgen_values(g: &RGen) -> Vec<u64> {
    let mut v = vec![];
    for (start, len, strided) in &g.runs {
        for j in 0..*len as u64 {
            let j = if *strided { 2 * j } else { j };
            let x = if g.neg { start.checked_sub(j) } else { start.checked_add(j).filter(|x| *x <= REORDER_MAX) };
            match x {
                Some(x) if v.len() < 60_000 => v.push(x),
                _ => break,
            }
        }
    }
    v
}

fn reorder_read(path: &Path) -> Result<ReadOut, String> {
    let mut m = ZReorderMap::open(path).map_err(|e| e.to_string())?;
    let mut out = ReadOut::new();
    let n = m.size();
    if n > 50_000_000 {
        out.note("len_absurd");
        return Ok(out);
    }
    if m.len() != n {
        out.note("exact_size_len_differs_from_size");
    }
    let mut first = vec![];
    while !m.eof() && first.len() <= n {
        match m.next() {
            Some(x) => first.push(x),
            None => {
                out.note("next_none_before_eof");
                break;
            }
        }
    }
    if m.next().is_some() {
        out.note("next_some_after_eof");
    }
    match m.rewind() {
        Ok(()) => {
            let mut second = vec![];
            while !m.eof() && second.len() <= n {
                match m.next() {
                    Some(x) => second.push(x),
                    None => break,
                }
            }
            if second != first {
                out.note("second_pass_after_rewind_differs");
            }
        }
        Err(_) => out.note("rewind_err_after_successful_open"),
    }
    out.content = first.iter().map(|x| rec(&(*x as u64).to_le_bytes())).collect();
    Ok(out)
}

fn run_reorder(ctx: &mut Ctx, gens: &[RGen], fault: &Fault) {
    let path = scratch_dir(ctx).join("c19_reorder.map");
    let _ = std::fs::remove_file(&path);
    let mut snaps = vec![];
    let mut prefinish = None;
    for g in gens {
        let vals = rgen_values(g);
        let sign = if g.neg { -1 } else { 1 };
        let mut pre = None;
        let reject_mid = g.runs.len() % 3 == 2 && vals.len() >= 2;
        if reject_mid {
            ctx.label("reorder_refused_push_mid_build");
        }
        let r = try_call(|| -> zipora::Result<()> {
            let mut b = ZReorderMapBuilder::new(&path, vals.len(), sign)?;
            for (k, x) in vals.iter().enumerate() {
                if reject_mid && k == vals.len() / 2 {
                    // a value outside the 40-bit range is refused; the builder stays usable and
                    // the refused value is not part of what was written
                    if b.push(1usize << 41).is_ok() {
                        return Err(zipora::ZiporaError::invalid_data("out-of-range value accepted"));
                    }
                }
                b.push(*x as usize)?;
            }
            pre = std::fs::read(&path).ok();
            b.finish()
        });
        match r {
            Ok(Ok(())) => {}
            Ok(Err(_)) => {
                ctx.label("write_op_refused");
                let _ = std::fs::remove_file(&path);
                return;
            }
            Err(_) => {
                ctx.label("write_op_panicked");
                let _ = std::fs::remove_file(&path);
                return;
            }
        }
        prefinish = pre;
        let Ok(file) = std::fs::read(&path) else {
            ctx.skip("cannot read scratch file");
            return;
        };
        ctx.label(format!("reorder_elems_{}", match vals.len() { 0 => "0", 1..=9 => "1-9", 10..=999 => "10-999", _ => "1000+" }));
        snaps.push(Snap { logical_end: file.len(), file, logical: vals.iter().map(|x| rec(&x.to_le_bytes())).collect() });
    }
    run_single_file(ctx, &path, snaps, prefinish, fault, 16, 16, false, &reorder_read);
    let _ = std::fs::remove_file(&path);
}

// ---------------------------------------------------------------------------------------
// cell: SuffixArrayDictionary file
// ---------------------------------------------------------------------------------------

fn sa_logical(text: &[u8], min: usize, max: usize) -> Logical {
    vec![rec(text), rec(&(min as u64).to_le_bytes()), rec(&(max as u64).to_le_bytes())]
}

fn sa_read(path: &Path) -> Result<ReadOut, String> {
    let d = SuffixArrayDictionary::load_from_file(path).map_err(|e| e.to_string())?;
    let mut out = ReadOut::new();
    out.content = sa_logical(d.data(), d.config().min_pattern_length, d.config().max_pattern_length);
    if d.dictionary_text() != d.data() {
        out.note("dictionary_text_differs_from_data");
    }
    if d.dictionary_size() != d.data().len() {
        out.note("dictionary_size_differs_from_data_len");
    }
    if d.config().min_pattern_length <= d.config().max_pattern_length && d.validate().is_err() {
        out.note("validate_fails_after_successful_load");
    }
    Ok(out)
}

fn run_sa_dict(ctx: &mut Ctx, gens: &[(Payload, u8, u16)], fault: &Fault) {
    let path = scratch_dir(ctx).join("c19_sa_dict.bin");
    let _ = std::fs::remove_file(&path);
    let mut snaps = vec![];
    for (text, min, max) in gens {
        let text = text.bytes();
        let (min, max) = ((*min as usize).max(1), (*max as usize).max(*min as usize).max(1));
        let r = try_call(|| -> zipora::Result<()> {
            let cfg = SuffixArrayDictionaryConfig { min_pattern_length: min, max_pattern_length: max, use_memory_pool: false, ..Default::default() };
            let d = SuffixArrayDictionary::new(&text, cfg)?;
            d.save_to_file(&path)
        });
        match r {
            Ok(Ok(())) => {}
            Ok(Err(_)) => {
                ctx.label("write_op_refused");
                let _ = std::fs::remove_file(&path);
                return;
            }
            Err(_) => {
                ctx.label("write_op_panicked");
                let _ = std::fs::remove_file(&path);
                return;
            }
        }
        let Ok(file) = std::fs::read(&path) else {
            ctx.skip("cannot read scratch file");
            return;
        };
        snaps.push(Snap { logical_end: file.len(), file, logical: sa_logical(&text, min, max) });
    }
    run_single_file(ctx, &path, snaps, None, fault, 8, 8, false, &sa_read);
    let _ = std::fs::remove_file(&path);
}

// ---------------------------------------------------------------------------------------
// cell: io::mmap MemoryMappedOutput -> MemoryMappedInput
// ---------------------------------------------------------------------------------------

fn io_read(path: &Path, chunk: u16) -> Result<ReadOut, String> {
    let mut inp = MemoryMappedInput::from_path(path).map_err(|e| e.to_string())?;
    let mut out = ReadOut::new();
    out.labels.push(format!("io_strategy_{:?}", inp.strategy()));
    let n = inp.len();
    if inp.is_empty() != (n == 0) {
        out.note("is_empty");
    }
    let mut bytes: Vec<u8> = Vec::with_capacity(n);
    let sizes = [1usize, chunk as usize % 9000 + 1, 3, 4096, chunk as usize % 17 + 1];
    let mut i = 0usize;
    while inp.remaining() > 0 && bytes.len() <= n {
        let want = sizes[i % sizes.len()].min(inp.remaining());
        i += 1;
        if want == 1 && i % 2 == 0 {
            match inp.read_u8() {
                Ok(b) => bytes.push(b),
                Err(_) => {
                    out.note("read_err_inside_file");
                    break;
                }
            }
        } else {
            match inp.read_slice(want) {
                Ok(b) => {
                    if b.len() != want {
                        out.note("read_slice_wrong_length");
                    }
                    bytes.extend_from_slice(&b);
                }
                Err(_) => {
                    out.note("read_err_inside_file");
                    break;
                }
            }
        }
        if inp.position() != bytes.len() {
            out.note("position_differs_from_bytes_read");
        }
    }
    if inp.read_u8().is_ok() || inp.read_slice(1).is_ok() {
        out.note("read_ok_past_end");
    }
    if inp.seek(n + 1).is_ok() {
        out.note("seek_ok_past_end");
    }
    match inp.seek(0) {
        Ok(()) => match inp.read_slice(n) {
            Ok(b) => {
                if b != bytes {
                    out.note("second_pass_after_seek_differs");
                }
            }
            Err(_) => out.note("read_err_inside_file"),
        },
        Err(_) => out.note("seek_zero_err"),
    }
    out.content = vec![rec(&bytes)];
    Ok(out)
}

fn run_io_mmap(ctx: &mut Ctx, initial: usize, ops: &[IOp], chunk: u16, fault: &Fault) {
    let path = scratch_dir(ctx).join("c19_io_mmap.bin");
    let _ = std::fs::remove_file(&path);
    let mut o = match try_call(|| MemoryMappedOutput::create(&path, initial)) {
        Ok(Ok(o)) => o,
        Ok(Err(_)) => {
            ctx.label("create_refused");
            let _ = std::fs::remove_file(&path);
            return;
        }
        Err(_) => {
            ctx.label("create_panicked");
            let _ = std::fs::remove_file(&path);
            return;
        }
    };
    // model: the bytes of the file up to the high-water mark; everything beyond must be zero
    let mut buf: Vec<u8> = vec![];
    let mut pos = 0usize;
    let mut exact_len: Option<usize> = None;
    let mut snaps: Vec<Snap> = vec![];
    let flush = IOp::Flush;
    for op in ops.iter().chain(std::iter::once(&flush)) {
        let mut data: Vec<u8> = vec![];
        let mut seek_to = None;
        match op {
            IOp::Bytes(p) => data = p.bytes(),
            IOp::U8(x) => data = vec![*x],
            IOp::U32(x) => data = x.to_le_bytes().to_vec(),
            IOp::U64(x) => data = x.to_le_bytes().to_vec(),
            IOp::Var(x) => {
                let mut v = *x;
                loop {
                    let b = (v & 0x7f) as u8;
                    v >>= 7;
                    if v == 0 {
                        data.push(b);
                        break;
                    }
                    data.push(b | 0x80);
                }
            }
            IOp::LpStr(s) => {
                data.push(s.len() as u8); // strings are < 128 bytes: one-byte LEB128 length
                data.extend_from_slice(s.as_bytes());
            }
            IOp::Seek(s) => seek_to = Some(idx(*s, o.capacity() + 1)),
            IOp::Flush | IOp::TruncateHere => {}
        }
        let r = try_call(|| -> zipora::Result<()> {
            match op {
                IOp::Bytes(_) => o.write_bytes(&data),
                IOp::U8(x) => o.write_u8(*x),
                IOp::U32(x) => o.write_u32(*x),
                IOp::U64(x) => o.write_u64(*x),
                IOp::Var(x) => o.write_var_int(*x),
                IOp::LpStr(s) => o.write_length_prefixed_string(s),
                IOp::Seek(_) => o.seek(seek_to.unwrap_or(0)),
                IOp::Flush => o.flush(),
                IOp::TruncateHere => o.truncate(),
            }
        });
        match r {
            Ok(Ok(())) => {}
            Ok(Err(_)) => {
                ctx.label("write_op_refused");
                drop(o);
                let _ = std::fs::remove_file(&path);
                return;
            }
            Err(_) => {
                ctx.label("write_op_panicked");
                drop(o);
                let _ = std::fs::remove_file(&path);
                return;
            }
        }
        match op {
            IOp::Seek(_) => {
                pos = seek_to.unwrap_or(0);
                if pos > buf.len() {
                    buf.resize(pos, 0);
                }
            }
            IOp::TruncateHere => {
                buf.truncate(pos);
                buf.resize(pos, 0);
                exact_len = Some(pos);
                ctx.label("io_truncate_used");
            }
            IOp::Flush => {
                let Ok(file) = std::fs::read(&path) else {
                    ctx.skip("cannot read scratch file");
                    return;
                };
                // independent model of the file: written bytes, then zeros
                ctx.out.checks += 1;
                if file.len() < buf.len() || file[..buf.len()] != buf[..] {
                    ctx.fail("clean", "mismatch", "file_vs_model:content", format!("file after flush() differs from the bytes written ({} file bytes, {} written)", file.len(), buf.len()));
                } else if file[buf.len()..].iter().any(|b| *b != 0) {
                    ctx.fail("clean", "mismatch", "file_vs_model:nonzero_slack", "bytes after the written region are not zero".to_string());
                }
                if let Some(l) = exact_len {
                    ctx.out.checks += 1;
                    if file.len() != l.max(buf.len()) && buf.len() <= l {
                        ctx.fail("clean", "mismatch", "file_vs_model:len_after_truncate", format!("file is {} bytes after truncate() at {}", file.len(), l));
                    }
                }
                if snaps.last().map(|s| s.file != file).unwrap_or(true) {
                    if snaps.len() >= 6 {
                        snaps.remove(0);
                    }
                    snaps.push(Snap { logical_end: file.len(), logical: vec![rec(&file)], file });
                }
            }
            _ => {
                if !data.is_empty() || matches!(op, IOp::Bytes(_)) {
                    if pos + data.len() > buf.len() {
                        buf.resize(pos + data.len(), 0);
                        exact_len = None;
                    }
                    buf[pos..pos + data.len()].copy_from_slice(&data);
                    pos += data.len();
                }
            }
        }
    }
    drop(o);
    run_single_file(ctx, &path, snaps, None, fault, 8, 0, true, &|p| io_read(p, chunk));
    let _ = std::fs::remove_file(&path);
}

// ---------------------------------------------------------------------------------------
// cell: PlainBlobStore directory
// ---------------------------------------------------------------------------------------

type Dir = BTreeMap<u32, Vec<u8>>;

fn dir_logical(d: &Dir) -> Logical {
    d.iter()
        .map(|(id, data)| {
            let mut v = id.to_le_bytes().to_vec();
            v.extend_from_slice(data);
            rec(&v)
        })
        .collect()
}

fn plain_read(dir: &Path) -> Result<ReadOut, String> {
    let s = PlainBlobStore::new(dir).map_err(|e| e.to_string())?;
    let mut out = ReadOut::new();
    let ids: Vec<u32> = s.iter_ids().collect();
    if s.len() != ids.len() {
        out.note("len_differs_from_iter_ids");
    }
    if s.is_empty() != ids.is_empty() {
        out.note("is_empty");
    }
    for id in &ids {
        match s.get(*id) {
            Ok(data) => {
                if s.size(*id).ok().flatten() != Some(data.len()) {
                    out.note("size_differs_from_get");
                }
                let mut v = id.to_le_bytes().to_vec();
                v.extend_from_slice(&data);
                out.content.push(rec(&v));
            }
            Err(_) => out.note("get_err_for_listed_id"),
        }
        if !s.contains(*id) {
            out.note("contains_false_for_listed_id");
        }
    }
    Ok(out)
}

fn write_dir(dir: &Path, d: &Dir) -> bool {
    let _ = std::fs::remove_dir_all(dir);
    if std::fs::create_dir_all(dir).is_err() {
        return false;
    }
    d.iter().all(|(id, data)| std::fs::write(dir.join(id.to_string()), data).is_ok())
}

fn run_plain(ctx: &mut Ctx, ops: &[POp], fault: &PFault) {
    let dir: PathBuf = scratch_dir(ctx).join("c19_plain_store");
    let _ = std::fs::remove_dir_all(&dir);
    let mut store = match try_call(|| PlainBlobStore::create_new(&dir)) {
        Ok(Ok(s)) => s,
        _ => {
            ctx.label("create_refused");
            return;
        }
    };
    let mut model: Dir = BTreeMap::new();
    let mut states: Vec<Dir> = vec![model.clone()];
    for op in ops {
        match op {
            POp::Put(p) => {
                let data = p.bytes();
                match try_call(|| store.put(&data)) {
                    Ok(Ok(id)) => {
                        ctx.out.checks += 1;
                        if model.contains_key(&id) {
                            ctx.fail("put_id", "mismatch", "overwrites_live_record", format!("put returned id {id} which is still live"));
                        }
                        model.insert(id, data);
                    }
                    _ => {
                        ctx.label("write_op_refused");
                        let _ = std::fs::remove_dir_all(&dir);
                        return;
                    }
                }
            }
            POp::Remove(i) => {
                if model.is_empty() {
                    continue;
                }
                let id = *model.keys().nth(idx(*i, model.len())).unwrap();
                match try_call(|| store.remove(id)) {
                    Ok(Ok(())) => {
                        model.remove(&id);
                    }
                    _ => {
                        ctx.label("write_op_refused");
                        let _ = std::fs::remove_dir_all(&dir);
                        return;
                    }
                }
            }
            POp::Reopen => {
                drop(store);
                store = match try_call(|| PlainBlobStore::new(&dir)) {
                    Ok(Ok(s)) => s,
                    _ => {
                        ctx.label("write_op_refused");
                        let _ = std::fs::remove_dir_all(&dir);
                        return;
                    }
                };
                ctx.label("plain_reopened_mid_history");
            }
        }
        states.push(model.clone());
    }
    drop(store);
    let k = states.len() - 1;
    let all: Vec<Logical> = states.iter().map(dir_logical).collect();
    ctx.label(format!("plain_records_{}", match model.len() { 0 => "0", 1..=3 => "1-3", _ => "4+" }));
    let fclass = match fault {
        PFault::Clean => "clean",
        PFault::Rollback { .. } => "rollback",
        PFault::Missing { .. } => "missing_subset",
        PFault::TruncRecord { .. } => "truncated_record",
        PFault::EmptyRecord { .. } => "empty_record",
    };
    ctx.label(format!("fault_{fclass}"));

    // clean path: the directory as the writer left it
    marker("plain store: clean reopen");
    let res = try_call(|| plain_read(&dir));
    let got = judge_clean(ctx, "final", res, &all[k]);
    let mut valid = all.clone();
    if let Some(g) = got {
        if g != all[k] {
            valid.push(g);
        }
    }
    let history_ok = states.len() >= 3 && states.iter().any(|s| s.len() >= 2);
    match fault {
        PFault::Clean => {
            if history_ok {
                ctx.nontrivial();
            }
        }
        PFault::Rollback { to } => {
            let j = idx(*to, k + 1);
            if !write_dir(&dir, &states[j]) {
                ctx.skip("cannot write scratch directory");
                return;
            }
            marker(&format!("plain store: rollback to state {j}/{k}"));
            let res = try_call(|| plain_read(&dir));
            judge_clean(ctx, "earlier", res, &all[j]);
            if history_ok && j < k {
                ctx.nontrivial();
            }
        }
        PFault::Missing { since, mask } => {
            let j = idx(*since, k + 1);
            let (base, last) = (&states[j], &states[k]);
            let mut d: Dir = BTreeMap::new();
            let mut bit = 0u32;
            let mut ids: Vec<u32> = base.keys().chain(last.keys()).copied().collect();
            ids.sort_unstable();
            ids.dedup();
            for id in ids {
                match (base.get(&id), last.get(&id)) {
                    (Some(a), Some(_)) => {
                        d.insert(id, a.clone());
                    }
                    (None, Some(b)) => {
                        // created since j: durable or not
                        if (mask >> (bit % 64)) & 1 == 1 {
                            d.insert(id, b.clone());
                        }
                        bit += 1;
                    }
                    (Some(a), None) => {
                        // removed since j: removal durable or not
                        if (mask >> (bit % 64)) & 1 == 0 {
                            d.insert(id, a.clone());
                        }
                        bit += 1;
                    }
                    (None, None) => {}
                }
            }
            if !write_dir(&dir, &d) {
                ctx.skip("cannot write scratch directory");
                return;
            }
            let dl = dir_logical(&d);
            let is_state = all.contains(&dl);
            ctx.label(if is_state { "damaged_equals_a_snapshot" } else { "damaged_is_no_snapshot" });
            marker(&format!("plain store: missing subset since {j}/{k}"));
            let res = try_call(|| plain_read(&dir));
            let refs: Vec<&Logical> = valid.iter().collect();
            judge_damaged(ctx, fclass, res, &refs, &refs, &format!("{} of the changes since state {j} are durable", bit));
            if history_ok && !is_state {
                ctx.nontrivial();
            }
        }
        PFault::TruncRecord { .. } | PFault::EmptyRecord { .. } => {
            let last = &states[k];
            let cands: Vec<(&u32, &Vec<u8>)> = last.iter().filter(|(_, v)| !v.is_empty()).collect();
            if cands.is_empty() {
                ctx.label("no_record_to_damage");
                let _ = std::fs::remove_dir_all(&dir);
                return;
            }
            let (which, t) = match fault {
                PFault::TruncRecord { which, frac } => {
                    let (id, v) = cands[idx(*which, cands.len())];
                    (*id, ((*frac as u64 * v.len() as u64) >> 32) as usize)
                }
                PFault::EmptyRecord { which } => (*cands[idx(*which, cands.len())].0, 0),
                _ => unreachable!(),
            };
            let mut d = last.clone();
            d.get_mut(&which).unwrap().truncate(t);
            if !write_dir(&dir, &d) {
                ctx.skip("cannot write scratch directory");
                return;
            }
            marker(&format!("plain store: record {which} cut to {t} bytes"));
            let res = try_call(|| plain_read(&dir));
            let refs: Vec<&Logical> = valid.iter().collect();
            judge_damaged(ctx, fclass, res, &refs, &refs, &format!("record {which} cut to {t} of {} bytes", last[&which].len()));
            if history_ok && !all.contains(&dir_logical(&d)) {
                ctx.nontrivial();
            }
        }
    }
    let _ = std::fs::remove_dir_all(&dir);
}

// ---------------------------------------------------------------------------------------
// the property
// ---------------------------------------------------------------------------------------

impl Prop for P {
    fn id(&self) -> &'static str {
        "C19"
    }
    fn level(&self) -> &'static str {
        "fault_enumeration"
    }
    fn rule(&self) -> &'static str {
        "one case = (cell, generated write history with sync/finish points, fault selector): the history runs against the real structure on a scratch file while an independent model records the logical content L_j and the harness snapshots the file bytes S_j at every sync point; the writer is dropped; the selected damaged file (truncation at a generated fraction / next to header end, logical end, 512 B, 4 KiB, 64 KiB boundaries / every length for files <= 8 KiB; subset-mask mixture of S_{p-1} and S_p over 4 KiB or 512 B blocks; header swap; zero-filled tail; canary bytes after the logical end) is written and reopened through the public API and everything is read. Non-trivial = history with >= 2 sync points and a growth of the file (or of the logical content) between two of them, and (for a damaged file) the damaged bytes differ from every snapshot while the magic/header prefix is intact. Distinct by hash of the case JSON; an all_truncations case additionally reports its sub-executions."
    }
    fn assumptions(&self) -> Vec<String> {
        vec![
            "the reopen happens in the same worker process as the write, after the writer object was dropped (a SIGSEGV/SIGBUS therefore kills the worker and is reported by the supervisor as <cell>/exec/crash/<signal>; the worker log tail names the fault that was being reopened)".into(),
            "every history ends with an explicit sync()/flush()/finish()/save before the writer is dropped (MmapVec::drop does not sync); operations after the last sync point are not generated".into(),
            "an Err from create/open/load or from a write operation is 'refused' (labelled, not flagged); a write history with a refused operation ends there".into(),
            "block mixtures and header swaps are taken literally from the statement ('any prefix-consistent mixture of old and new blocks'); formats without checksums cannot detect them and the resulting discrepancies carry the classes torn/zeros/canary/garbage/prefix so that design-level findings stay separate from memory-safety ones".into(),
            "io_mmap is a header-less byte stream: on the damaged path the reader must present exactly the bytes of the damaged file (independent std::fs::read), not an earlier state".into(),
            "zip-offset store: the logical content is the records given to the builder (what a user believes was stored)".into(),
            "plain store: the on-disk format (one file per record, named by the decimal id) is taken from the type's doc comment; directory-entry durability is modelled as 'any subset of the changes since an earlier state is missing'".into(),
            "files live on tmpfs (/dev/shm/verif-c19/<run>/<worker>, removed per case; VERIF_C19_SCRATCH=ctx forces ctx.scratch) because every sync point is an fsync/msync; real durability is never relied upon, only the bytes of the file".into(),
            "SuffixArrayDictionary serialises a HashMap, so the snapshot bytes (not the logical content) can differ between runs of the same case".into(),
        ]
    }
    fn plans(&self, tier: Tier) -> Vec<Plan> {
        let q = |a, b| tier.pick(a, b);
        let mut v = vec![];
        // --- MmapVec<T> x presets -----------------------------------------------------------
        let vec_cells: &[(u8, u8, usize, usize)] = &[
            // (type, preset, quick cases, thorough cases)
            (0, 0, 5000, 100_000),
            (1, 0, 5000, 100_000),
            (0, 1, 3600, 80_000),
            (1, 1, 3600, 80_000),
            (1, 2, 2800, 60_000),
            (0, 2, 2000, 48_000),
            (1, 3, 800, 16_000),
            (1, 4, 1600, 32_000),
            (0, 5, 160, 3_200),
            (0, 6, 3600, 80_000),
            (1, 6, 3600, 80_000),
            (2, 0, 2400, 48_000),
            (2, 6, 1600, 32_000),
        ];
        for &(ty, preset, qa, ta) in vec_cells {
            let cell = format!("mmap_vec_{}_{}", VEC_TYPES[ty as usize], VEC_PRESETS[preset as usize]);
            let small_only = preset == 3;
            let seg_ops = if preset == 5 { 2 } else { 4 };
            let cap_hint = [1024usize, 256, 8192, 16384, 1024, 1024 * 1024, 2][preset as usize];
            let all_w = if preset == 5 || preset == 3 { 0 } else { 1 };
            v.push(Plan::new(
                &cell,
                q(qa, ta),
                q(qa / 10, ta / 4),
                (any::<u16>(), any::<u8>(), any::<bool>(), vops_strategy(ty, small_only, cap_hint, seg_ops), fault_strategy(all_w, false))
                    .prop_map(move |(cap, growth, ro_reopen, ops, fault)| Case::MmapVec { ty, preset, cap, growth, ro_reopen, ops, fault }),
            ));
        }
        // --- ZipOffsetBlobStore file ---------------------------------------------------------
        for (pi, name) in ZO_PRESETS.iter().enumerate() {
            v.push(Plan::new(
                &format!("zipoffset_file_{name}"),
                q(300, 6000),
                q(30, 1500),
                (proptest::collection::vec(proptest::collection::vec(record_payload(1500), 0..8), 1..4), fault_strategy(1, false))
                    .prop_map(move |(gens, fault)| Case::ZipOffset { preset: pi as u8, gens, fault }),
            ));
        }
        // --- ZReorderMap ---------------------------------------------------------------------
        v.push(Plan::new(
            "reorder_map",
            q(10_000, 200_000),
            q(1000, 50_000),
            (proptest::collection::vec(rgen_strategy(q(14, 40)), 1..4), fault_strategy(2, true)).prop_map(|(gens, fault)| Case::Reorder { gens, fault }),
        ));
        // --- PlainBlobStore directory ----------------------------------------------------------
        let pop = prop_oneof![6 => record_payload(600).prop_map(POp::Put), 2 => any::<u16>().prop_map(POp::Remove), 1 => Just(POp::Reopen)];
        let pfault = prop_oneof![
            2 => Just(PFault::Clean),
            2 => any::<u16>().prop_map(|to| PFault::Rollback { to }),
            4 => (any::<u16>(), any::<u64>()).prop_map(|(since, mask)| PFault::Missing { since, mask }),
            3 => (any::<u16>(), frac_strategy()).prop_map(|(which, frac)| PFault::TruncRecord { which, frac }),
            1 => any::<u16>().prop_map(|which| PFault::EmptyRecord { which }),
        ];
        v.push(Plan::new(
            "plain_store",
            q(6000, 120_000),
            0,
            (proptest::collection::vec(pop, 0..10), pfault).prop_map(|(ops, fault)| Case::Plain { ops, fault }),
        ));
        // --- SuffixArrayDictionary file ------------------------------------------------------
        v.push(Plan::new(
            "sa_dictionary_file",
            q(1600, 32_000),
            q(160, 8000),
            (
                proptest::collection::vec((gen::payload(prop_oneof![2 => 1usize..=40, 2 => gen::size_around(&[64, 256], 700)].boxed(), 24), 1u8..9, 4u16..300), 1..4),
                fault_strategy(1, false),
            )
                .prop_map(|(gens, fault)| Case::SaDict { gens, fault }),
        ));
        // --- io::mmap --------------------------------------------------------------------------
        v.push(Plan::new(
            "io_mmap",
            q(8000, 160_000),
            q(800, 40_000),
            (
                prop_oneof![4 => 0usize..=64, 4 => gen::size_around(&[512, 4096], 10_000), 2 => Just(4096usize), 2 => Just(4097usize), 1 => proptest::sample::select(vec![1_048_575usize, 1_048_576, 1_048_577])],
                iops_strategy(),
                any::<u16>(),
                fault_strategy(1, false),
            )
                .prop_map(|(initial, ops, chunk, fault)| Case::IoMmap { initial, ops, chunk, fault }),
        ));
        v
    }

    fn run(&self, case: &Value, ctx: &mut Ctx) {
        let c: Case = decode(case);
        if std::fs::create_dir_all(&ctx.scratch).is_err() {
            ctx.skip("cannot create scratch directory");
            return;
        }
        let dir = scratch_dir(ctx);
        match c {
            Case::MmapVec { ty, preset, cap, growth, ro_reopen, ops, fault } => match ty {
                0 => run_mmap_vec::<u8>(ctx, preset, cap, growth, ro_reopen, &ops, &fault),
                1 => run_mmap_vec::<u64>(ctx, preset, cap, growth, ro_reopen, &ops, &fault),
                _ => run_mmap_vec::<[u8; 24]>(ctx, preset, cap, growth, ro_reopen, &ops, &fault),
            },
            Case::ZipOffset { preset, gens, fault } => run_zip_offset(ctx, preset, &gens, &fault),
            Case::Reorder { gens, fault } => run_reorder(ctx, &gens, &fault),
            Case::Plain { ops, fault } => run_plain(ctx, &ops, &fault),
            Case::SaDict { gens, fault } => run_sa_dict(ctx, &gens, &fault),
            Case::IoMmap { initial, ops, chunk, fault } => run_io_mmap(ctx, initial, &ops, chunk, &fault),
        }
        if dir != ctx.scratch {
            let _ = std::fs::remove_dir_all(&dir);
            // the run-level directory goes with its last worker directory (fails while non-empty)
            if let Some(run) = dir.parent() {
                if std::fs::remove_dir(run).is_ok() {
                    if let Some(root) = run.parent() {
                        let _ = std::fs::remove_dir(root);
                    }
                }
            }
        }
    }
}
