//! C18 — every submitted task runs exactly once; ordered pipelines keep their order.
//!
//! Oracles: per-task execution counters owned by the harness (started / finished, one slot per
//! submitted task), sequential application of the stage function for every ordered API, and
//! for the executor a progress-counter based "stuck" decision (never a bare wall-clock timeout).
//! The tokio schedule of the executor cells is owned by the harness: a `current_thread`
//! runtime is created inside `run`, `Submit` steps are interleaved with generated `Yield(k)`
//! steps, and all workers advance only at `await` points.

use crate::engine::{decode, try_call, Ctx, Plan, Prop, Tier};
use crate::gen::Xs;
use proptest::prelude::*;
use serde::{Deserialize, Serialize};
use serde_json::Value;
use std::collections::{BTreeMap, BTreeSet};
use std::future::Future;
use std::pin::Pin;
use std::sync::atomic::{AtomicU32, AtomicU64, Ordering::SeqCst};
use std::sync::{Arc, Mutex};
use std::time::Duration;
use zipora::concurrency::fiber_pool::{FiberHandle, FiberPool, FiberPoolConfig};
use zipora::concurrency::pipeline::{BatchCollector, BatchMapStage, FilterStage, MapStage, Pipeline, PipelineConfig, PipelineStage};
use zipora::concurrency::work_stealing::{ClosureTask, Task, WorkStealingExecutor, WorkStealingQueue};
use zipora::{Result as ZResult, ZiporaError};

pub struct P;

type BoxFut<T> = Pin<Box<dyn Future<Output = T> + Send>>;
/// pipeline item: (input index, value)
type It = (u32, u64);

#[derive(Clone, Copy, Debug, Serialize, Deserialize, PartialEq)]
pub struct TSpec {
    pub prio: u8,
    pub stealable: bool,
    pub yields: u8,
    pub fail: bool,
}

#[derive(Clone, Debug, Serialize, Deserialize)]
pub enum Step {
    Submit(TSpec),
    /// `n` tasks whose attributes are expanded deterministically from (`mix`, `seed`)
    Burst { n: u16, mix: u8, seed: u32 },
    Yield(u8),
}

#[derive(Clone, Debug, Serialize, Deserialize)]
pub enum QOp {
    Push { prio: u8, stealable: bool },
    Pop,
    Steal,
    Balance,
}

#[derive(Clone, Debug, Serialize, Deserialize)]
pub enum COp {
    Add,
    Flush,
    Check,
}

#[derive(Clone, Debug, Serialize, Deserialize)]
pub enum Case {
    Queue { cap: u16, ops: Vec<QOp> },
    /// threads == 0: current-thread runtime (deterministic); otherwise a multi-thread runtime
    Exec { workers: u8, cap: u16, threads: u8, api: u8, steps: Vec<Step> },
    PoolSpawn { max_fibers: u8, threads: u8, batch: bool, shutdown_first: bool, reverse: bool, tasks: Vec<(u8, bool)> },
    PoolMap { max_fibers: u8, threads: u8, for_each: bool, n: u16, fail_at: Vec<u16> },
    PoolReduce { max_fibers: u8, max_workers: u8, threads: u8, n: u16, fail_at: Vec<u16> },
    GlobalPar { op: u8, threads: u8, n: u16, yields: u8, fail_at: Vec<u16> },
    PipeSingle { kind: u8, two: bool, x: u32, fail1: bool, fail2: bool, hang: u8 },
    PipeBatch { kind: u8, batching: bool, n: u16, yields: u8, fail_at: Vec<u16>, hang_at: Vec<u16> },
    PipeStream { stages: u8, buffer: u8, in_cap: u8, threads: u8, n: u16, yields: u8, fail: Vec<(u8, u16)>, hang: Vec<(u8, u16)> },
    Collector { max: u8, timeout_zero: bool, ops: Vec<COp> },
    Helpers { op: u8, n: u16, interval: u8, max_conc: u8, fail_at: Vec<u16> },
    BlobStore { threads: u8, lens: Vec<u8>, batch: u8, yields: u8 },
    /// submit one task, wait for it, pause a generated moment, repeat: every submit meets an
    /// executor that has gone idle (parked / sleeping workers)
    PingPong { workers: u8, rounds: u16, pauses: Vec<u8> },
}

// ---------------------------------------------------------------------------------------
// shared instrumentation
// ---------------------------------------------------------------------------------------

struct Shared {
    started: Vec<AtomicU32>,
    finished: Vec<AtomicU32>,
    progress: AtomicU64,
}

impl Shared {
    fn new(n: usize) -> Arc<Shared> {
        Arc::new(Shared {
            started: (0..n).map(|_| AtomicU32::new(0)).collect(),
            finished: (0..n).map(|_| AtomicU32::new(0)).collect(),
            progress: AtomicU64::new(0),
        })
    }
    fn start(&self, i: usize) {
        if let Some(c) = self.started.get(i) {
            c.fetch_add(1, SeqCst);
        }
        self.progress.fetch_add(1, SeqCst);
    }
    fn finish(&self, i: usize) {
        if let Some(c) = self.finished.get(i) {
            c.fetch_add(1, SeqCst);
        }
        self.progress.fetch_add(1, SeqCst);
    }
    fn tick(&self) {
        self.progress.fetch_add(1, SeqCst);
    }
    fn started_v(&self) -> Vec<u32> {
        self.started.iter().map(|c| c.load(SeqCst)).collect()
    }
    fn finished_v(&self) -> Vec<u32> {
        self.finished.iter().map(|c| c.load(SeqCst)).collect()
    }
}

fn gen_err() -> ZiporaError {
    ZiporaError::invalid_data("generated failure")
}

fn build_rt(threads: u8) -> Option<tokio::runtime::Runtime> {
    if threads == 0 {
        tokio::runtime::Builder::new_current_thread().enable_all().build().ok()
    } else {
        tokio::runtime::Builder::new_multi_thread().worker_threads(threads as usize).enable_all().build().ok()
    }
}

/// Drive `fut` to completion; gives up (None) only when the harness-owned progress counter has
/// not moved for `150 * scale` consecutive 2 ms rounds while the future stayed pending.
async fn drive<T>(fut: impl Future<Output = T>, progress: &AtomicU64, scale: u32) -> Option<T> {
    tokio::pin!(fut);
    let mut last = progress.load(SeqCst);
    let mut quiet = 0u32;
    loop {
        tokio::select! {
            biased;
            r = &mut fut => return Some(r),
            _ = tokio::time::sleep(Duration::from_millis(2)) => {}
        }
        let now = progress.load(SeqCst);
        if now != last {
            last = now;
            quiet = 0;
        } else {
            quiet += 1;
            if quiet >= 150 * scale {
                return None;
            }
        }
    }
}

fn size_class(n: usize) -> &'static str {
    match n {
        0 => "0",
        1..=9 => "1-9",
        10..=97 => "10-97",
        98..=103 => "98-103",
        104..=198 => "104-198",
        199..=203 => "199-203",
        204..=299 => "204-299",
        _ => "300+",
    }
}

fn fail_set(fail_at: &[u16], n: usize) -> Arc<BTreeSet<u32>> {
    // indices are generated as u16 and mapped monotonically onto 0..n
    Arc::new(if n == 0 { BTreeSet::new() } else { fail_at.iter().map(|&i| crate::gen::idx(i, n) as u32).collect() })
}

// ---------------------------------------------------------------------------------------
// ws_queue
// ---------------------------------------------------------------------------------------

struct QTask {
    id: u32,
    prio: u8,
    stealable: bool,
    log: Arc<Mutex<Vec<u32>>>,
}
impl Task for QTask {
    fn execute(self: Box<Self>) -> BoxFut<ZResult<()>> {
        self.log.lock().unwrap().push(self.id);
        Box::pin(async { Ok(()) })
    }
    fn priority(&self) -> u8 {
        self.prio
    }
    fn is_stealable(&self) -> bool {
        self.stealable
    }
}

fn run_queue(ctx: &mut Ctx, cap: u16, ops: &[QOp]) {
    let q = WorkStealingQueue::new(0, cap as usize);
    let log: Arc<Mutex<Vec<u32>>> = Arc::new(Mutex::new(vec![]));
    let mut live: BTreeMap<u32, (u8, bool)> = BTreeMap::new();
    let mut gone: BTreeSet<u32> = BTreeSet::new();
    let mut refused: BTreeSet<u32> = BTreeSet::new();
    let mut next = 0u32;
    let mut pushes = 0usize;
    let (mut balances, mut steals) = (0usize, 0usize);
    // priority of the last pop_local since the last push (local queue is documented as
    // "highest priority first", so a run of pops without a push is non-increasing)
    let mut last_pop: Option<u8> = None;

    // identify the task that came out by running it (it logs its id synchronously)
    let take = |ctx: &mut Ctx, t: Box<dyn Task>, how: &str, live: &mut BTreeMap<u32, (u8, bool)>, gone: &mut BTreeSet<u32>, refused: &BTreeSet<u32>| -> Option<(u32, u8, bool)> {
        let before = log.lock().unwrap().len();
        drop(t.execute());
        let l = log.lock().unwrap();
        let id = *l.get(before)?;
        drop(l);
        if let Some((p, s)) = live.remove(&id) {
            gone.insert(id);
            Some((id, p, s))
        } else {
            let class = if gone.contains(&id) { "returned_twice" } else if refused.contains(&id) { "refused_task_returned" } else { "unknown_task" };
            ctx.fail("exactly_once", "mismatch", class, format!("{how} returned task {id} which is not pending"));
            None
        }
    };

    for op in ops {
        match op {
            QOp::Push { prio, stealable } => {
                let id = next;
                next += 1;
                pushes += 1;
                let t = Box::new(QTask { id, prio: *prio, stealable: *stealable, log: log.clone() });
                match ctx.no_panic("push_local", || q.push_local(t)) {
                    Some(Ok(())) => {
                        live.insert(id, (*prio, *stealable));
                        last_pop = None;
                    }
                    Some(Err(_)) => {
                        refused.insert(id);
                        ctx.label("push_refused");
                    }
                    None => {}
                }
            }
            QOp::Pop => {
                if let Some(r) = ctx.no_panic("pop_local", || q.pop_local()) {
                    match r {
                        Some(t) => {
                            if let Some((id, p, _)) = take(ctx, t, "pop_local", &mut live, &mut gone, &refused) {
                                if let Some(lp) = last_pop {
                                    ctx.ensure("pop_priority_order", "", p <= lp, || format!("pop_local returned priority {p} (task {id}) after priority {lp} with no push in between"));
                                }
                                last_pop = Some(p);
                            }
                        }
                        None => ctx.label("pop_none"),
                    }
                }
            }
            QOp::Steal => {
                steals += 1;
                if let Some(r) = ctx.no_panic("steal", || q.steal()) {
                    match r {
                        Some(t) => {
                            if let Some((id, _, s)) = take(ctx, t, "steal", &mut live, &mut gone, &refused) {
                                ctx.ensure("steal_respects_stealable", "", s, || format!("steal() returned non-stealable task {id}"));
                                ctx.label("stolen");
                            }
                        }
                        None => ctx.label("steal_none"),
                    }
                }
            }
            QOp::Balance => {
                balances += 1;
                ctx.no_panic("balance", || q.balance());
            }
        }
        if let Some(l) = ctx.no_panic("len", || q.len()) {
            if !ctx.eq("len", "", &l, &live.len()) {
                // cannot resynchronise a set from a count; stop comparing len for this case
                break;
            }
            ctx.eq("is_empty", "", &q.is_empty(), &live.is_empty());
        }
    }
    // final drain: everything accepted must come out exactly once
    let mut guard = 0;
    loop {
        guard += 1;
        if guard > 100_000 {
            ctx.fail("exactly_once", "mismatch", "drain_never_ends", "pop_local/steal kept returning tasks".to_string());
            break;
        }
        let t = match try_call(|| q.pop_local().or_else(|| q.steal())) {
            Ok(t) => t,
            Err(p) => {
                ctx.fail("drain", "panic", &p.class(), p.msg.clone());
                break;
            }
        };
        match t {
            Some(t) => {
                take(ctx, t, "drain", &mut live, &mut gone, &refused);
            }
            None => break,
        }
    }
    if !live.is_empty() {
        // a lone non-stealable... no: pop_local drains the local queue unconditionally and steal()
        // drains the steal queue, so nothing may remain
        let ids: Vec<u32> = live.keys().copied().take(8).collect();
        ctx.fail("exactly_once", "mismatch", "lost", format!("{} accepted task(s) never came out of pop_local/steal, e.g. ids {:?}; len() now {}", live.len(), ids, q.len()));
    }
    if pushes > cap as usize || (pushes >= 3 && balances >= 1 && steals >= 1) {
        ctx.nontrivial();
    }
    ctx.label(format!("cap_{}", if cap <= 8 { "1-8" } else { "64+" }));
}

// ---------------------------------------------------------------------------------------
// ws_exec
// ---------------------------------------------------------------------------------------

fn expand_burst(n: u16, mix: u8, seed: u32) -> Vec<TSpec> {
    let mut r = Xs((seed as u64) << 1 | 1);
    (0..n)
        .map(|_| {
            let x = r.next();
            match mix % 6 {
                0 => TSpec { prio: 0, stealable: true, yields: 0, fail: false },
                1 => TSpec { prio: (x % 4) as u8, stealable: true, yields: 0, fail: false },
                2 => TSpec { prio: 0, stealable: x % 2 == 0, yields: 0, fail: false },
                3 => TSpec { prio: 0, stealable: false, yields: 0, fail: false },
                4 => TSpec { prio: (x % 4) as u8, stealable: (x >> 8) % 4 != 0, yields: ((x >> 16) % 3) as u8, fail: (x >> 24) % 8 == 0 },
                _ => TSpec { prio: 0, stealable: true, yields: 1, fail: false },
            }
        })
        .collect()
}

enum PStep {
    Submit(usize, TSpec),
    Yield(u8),
}

const MAX_TASKS: usize = 2000;

fn flatten(steps: &[Step]) -> (Vec<PStep>, usize, bool) {
    let mut out = vec![];
    let mut n = 0usize;
    let mut truncated = false;
    for s in steps {
        match s {
            Step::Submit(t) => {
                if n < MAX_TASKS {
                    out.push(PStep::Submit(n, *t));
                    n += 1;
                } else {
                    truncated = true;
                }
            }
            Step::Burst { n: k, mix, seed } => {
                for t in expand_burst(*k, *mix, *seed) {
                    if n < MAX_TASKS {
                        out.push(PStep::Submit(n, t));
                        n += 1;
                    } else {
                        truncated = true;
                    }
                }
            }
            Step::Yield(k) => out.push(PStep::Yield(*k)),
        }
    }
    (out, n, truncated)
}

fn task_body(id: usize, spec: TSpec, sh: Arc<Shared>) -> BoxFut<ZResult<()>> {
    Box::pin(async move {
        sh.start(id);
        for _ in 0..spec.yields {
            tokio::task::yield_now().await;
        }
        sh.finish(id);
        if spec.fail {
            Err(gen_err())
        } else {
            Ok(())
        }
    })
}

struct XTask {
    id: usize,
    spec: TSpec,
    sh: Arc<Shared>,
}
impl Task for XTask {
    fn execute(self: Box<Self>) -> BoxFut<ZResult<()>> {
        task_body(self.id, self.spec, self.sh.clone())
    }
    fn priority(&self) -> u8 {
        self.spec.prio
    }
    fn is_stealable(&self) -> bool {
        self.spec.stealable
    }
}

#[derive(Default, Debug)]
struct ExecObs {
    new_err: Option<String>,
    accepted: Vec<bool>,
    started: Vec<u32>,
    finished: Vec<u32>,
    total_executed: u64,
    total_steals: u64,
    active_at_end: usize,
    queued_at_end: usize,
    idle_at_end: bool,
    stuck: bool,
    hung_active: bool,
}

fn exec_once(workers: usize, cap: usize, threads: u8, api: u8, plan: &[PStep], n: usize, scale: u32) -> Option<ExecObs> {
    let rt = build_rt(threads)?;
    let sh = Shared::new(n);
    let obs = rt.block_on(async {
        let mut obs = ExecObs { accepted: vec![false; n], ..Default::default() };
        let exec = match WorkStealingExecutor::new(workers, cap) {
            Ok(e) => e,
            Err(e) => {
                obs.new_err = Some(format!("{e}"));
                return obs;
            }
        };
        for st in plan {
            match st {
                PStep::Submit(id, spec) => {
                    let (id, spec) = (*id, *spec);
                    let default_spec = spec.prio == 0 && spec.stealable;
                    let r = match api % 3 {
                        0 => exec.submit(Box::new(XTask { id, spec, sh: sh.clone() })),
                        2 if default_spec => {
                            let sh2 = sh.clone();
                            exec.submit_closure(move || task_body(id, spec, sh2))
                        }
                        _ => {
                            let sh2 = sh.clone();
                            exec.submit(Box::new(ClosureTask::new(move || task_body(id, spec, sh2)).with_priority(spec.prio).with_stealable(spec.stealable)))
                        }
                    };
                    obs.accepted[id] = r.is_ok();
                }
                PStep::Yield(k) => {
                    for _ in 0..*k {
                        tokio::task::yield_now().await;
                        if threads > 0 {
                            std::thread::yield_now();
                        }
                    }
                }
            }
        }
        // drain: progress-counter based
        let n_acc = obs.accepted.iter().filter(|a| **a).count() as u64;
        let (fast, slow) = if threads == 0 { (130 * scale, 10 * scale) } else { (50, 150 * scale) };
        let mut quiet = 0u32;
        let mut last = (u64::MAX, usize::MAX, u64::MAX);
        loop {
            // read order matters on the multi-thread runtime: once every accepted task has
            // finished, active_tasks can only fall, and each decrement comes after the matching
            // total_executed increment -- so `finished` is sampled first and the statistics last
            let fin: u64 = sh.finished.iter().map(|c| c.load(SeqCst) as u64).sum();
            let q = exec.total_queued();
            let st = exec.stats();
            if q == 0 && st.active_tasks == 0 && fin >= n_acc {
                break;
            }
            let cur = (st.total_executed, q, sh.progress.load(SeqCst));
            if cur != last {
                last = cur;
                quiet = 0;
            } else {
                quiet += 1;
            }
            if st.active_tasks == 0 && quiet >= fast + slow {
                obs.stuck = true;
                break;
            }
            if quiet >= (fast + slow) * 20 {
                obs.hung_active = true;
                break;
            }
            if quiet < fast {
                tokio::task::yield_now().await;
                if threads > 0 {
                    std::thread::yield_now();
                }
            } else {
                tokio::time::sleep(Duration::from_millis(if threads == 0 { 2 } else { 1 })).await;
            }
        }
        let st = exec.stats();
        obs.total_executed = st.total_executed;
        obs.total_steals = st.total_steals;
        obs.active_at_end = st.active_tasks;
        obs.queued_at_end = exec.total_queued();
        obs.idle_at_end = exec.is_idle();
        let _ = exec.shutdown().await;
        obs
    });
    rt.shutdown_background();
    let mut obs = obs;
    obs.started = sh.started_v();
    obs.finished = sh.finished_v();
    Some(obs)
}

/// A task accepted by an idle executor must run although nothing else is ever submitted.  "Lost"
/// is decided only after 8 s without the task having started while it is still counted as
/// queued (the supervisor re-runs a failing case in a fresh worker before reporting it).
fn run_pingpong(ctx: &mut Ctx, workers: u8, rounds: u16, pauses: &[u8]) {
    let Some(rt) = build_rt(2) else {
        ctx.skip("cannot build a tokio runtime");
        return;
    };
    let workers = workers.clamp(1, 4) as usize;
    let pauses: Vec<u8> = if pauses.is_empty() { vec![3] } else { pauses.to_vec() };
    let out = rt.block_on(async move {
        let exec = match WorkStealingExecutor::new(workers, 64) {
            Ok(e) => e,
            Err(e) => return Err(format!("{e}")),
        };
        let done = Arc::new(AtomicU64::new(0));
        let mut accepted = 0u64;
        let mut lost: Option<(u16, usize, bool)> = None;
        'rounds: for i in 0..rounds {
            let p = pauses[i as usize % pauses.len()] as u32;
            for _ in 0..p * 60 {
                std::hint::spin_loop();
            }
            if p % 4 == 0 {
                tokio::task::yield_now().await;
            }
            if p % 16 == 5 {
                tokio::time::sleep(Duration::from_micros(300)).await;
            }
            let d = done.clone();
            if exec
                .submit_closure(move || {
                    Box::pin(async move {
                        d.fetch_add(1, SeqCst);
                        Ok(())
                    }) as BoxFut<ZResult<()>>
                })
                .is_err()
            {
                continue;
            }
            accepted += 1;
            let t0 = std::time::Instant::now();
            loop {
                if done.load(SeqCst) >= accepted {
                    break;
                }
                let el = t0.elapsed();
                if el > Duration::from_secs(8) {
                    lost = Some((i, exec.total_queued(), exec.is_idle()));
                    break 'rounds;
                }
                if el < Duration::from_micros(200) {
                    tokio::task::yield_now().await;
                } else {
                    tokio::time::sleep(Duration::from_millis(1)).await;
                }
            }
        }
        if lost.is_none() {
            let _ = exec.shutdown().await;
        }
        Ok((accepted, lost))
    });
    rt.shutdown_background();
    match out {
        Ok((accepted, lost)) => {
            ctx.out.checks += accepted;
            if accepted >= 50 {
                ctx.nontrivial();
            }
            ctx.label(format!("pingpong_workers_{workers}"));
            if let Some((round, queued, idle)) = lost {
                ctx.fail("exactly_once", "mismatch", "lost_after_idle", format!("task #{round} was accepted by submit() on an idle executor ({workers} workers) and had not started 8 s later; total_queued() = {queued}, is_idle() = {idle}"));
            }
        }
        Err(e) => ctx.fail("new", "err", "", format!("WorkStealingExecutor::new({workers},64) failed: {e}")),
    }
}

fn run_exec(ctx: &mut Ctx, workers: u8, cap: u16, threads: u8, api: u8, steps: &[Step]) {
    let workers = workers.max(1) as usize;
    let cap = cap.max(1) as usize;
    let (plan, n, truncated) = flatten(steps);
    if truncated {
        ctx.label("tasks_truncated_to_2000");
    }
    let mut obs = None;
    for scale in [1u32, if threads == 0 { 3 } else { 6 }] {
        match try_call(|| exec_once(workers, cap, threads, api, &plan, n, scale)) {
            Ok(Some(o)) => {
                let again = o.stuck || o.hung_active;
                obs = Some(o);
                if !again {
                    if scale > 1 {
                        ctx.label("stuck_not_confirmed_on_rerun");
                    }
                    break;
                }
            }
            Ok(None) => {
                ctx.skip("cannot build a tokio runtime");
                return;
            }
            Err(p) => {
                ctx.fail("executor", "panic", &p.class(), format!("{}:{}: {}", p.file, p.line, p.msg));
                return;
            }
        }
    }
    let Some(o) = obs else { return };
    if let Some(e) = &o.new_err {
        ctx.fail("new", "err", "", format!("WorkStealingExecutor::new({workers},{cap}) failed: {e}"));
        return;
    }
    let wclass = if workers == 1 { "single_worker" } else { "multi_worker" };
    ctx.label(format!("workers_{workers}"));
    ctx.label(format!("cap_{}", if cap <= 8 { "1-8".to_string() } else { cap.to_string() }));
    ctx.label(format!("tasks_{}", size_class(n)));
    if n > workers * cap {
        ctx.label("overflow_into_global_queue");
    }
    if o.total_steals > 0 {
        ctx.label("steals_happened");
    }
    let n_acc = o.accepted.iter().filter(|a| **a).count();
    if n_acc < n {
        ctx.label("some_submissions_rejected");
    }
    if n > cap || n_acc >= 101 {
        ctx.nontrivial();
    }
    // exactly once
    let twice: Vec<usize> = (0..n).filter(|&i| o.started[i] > 1 || o.finished[i] > 1).collect();
    ctx.ensure("exactly_once", "ran_twice", twice.is_empty(), || format!("{} task(s) executed more than once, e.g. ids {:?}", twice.len(), &twice[..twice.len().min(8)]));
    let ghost: Vec<usize> = (0..n).filter(|&i| !o.accepted[i] && o.started[i] > 0).collect();
    ctx.ensure("rejected_not_run", "", ghost.is_empty(), || format!("{} rejected submission(s) were executed anyway, e.g. ids {:?}", ghost.len(), &ghost[..ghost.len().min(8)]));
    let half: Vec<usize> = (0..n).filter(|&i| o.started[i] > o.finished[i]).collect();
    if !o.hung_active {
        ctx.ensure("exactly_once", "started_not_finished", half.is_empty(), || format!("{} task(s) were started but never completed, e.g. ids {:?}", half.len(), &half[..half.len().min(8)]));
    }
    let missing: Vec<usize> = (0..n).filter(|&i| o.accepted[i] && o.started[i] == 0).collect();
    ctx.out.checks += 1;
    if !missing.is_empty() {
        let class = if o.queued_at_end >= missing.len() { format!("stranded_{wclass}") } else { format!("lost_{wclass}") };
        ctx.label("stuck");
        ctx.fail(
            "exactly_once",
            "mismatch",
            &class,
            format!(
                "{} of {} accepted tasks never ran (first ids {:?}); workers={workers} capacity={cap}; total_queued()={} active_tasks={} total_executed={} and no progress for the whole confirmation window",
                missing.len(),
                n_acc,
                &missing[..missing.len().min(6)],
                o.queued_at_end,
                o.active_at_end,
                o.total_executed
            ),
        );
    } else if o.stuck || o.hung_active {
        ctx.fail(
            "idle_after_drain",
            "mismatch",
            if o.hung_active { "active_task_never_finishes" } else { "queue_not_empty_after_all_ran" },
            format!("all {n_acc} accepted tasks ran but total_queued()={} active_tasks={}", o.queued_at_end, o.active_at_end),
        );
    } else {
        ctx.label("drained");
        ctx.ensure("idle_after_drain", "", o.idle_at_end, || format!("is_idle() false after every task finished: queued={} active={}", o.queued_at_end, o.active_at_end));
    }
    // the statistic counts each execution once (compared against what actually ran, so the
    // stranding defect is not reported a second time here)
    let ran = (0..n).filter(|&i| o.finished[i] > 0).count() as u64;
    ctx.eq("total_executed", "", &o.total_executed, &ran);
}

// ---------------------------------------------------------------------------------------
// fiber pool
// ---------------------------------------------------------------------------------------

fn pool_cfg(max_fibers: u8, max_workers: u8) -> FiberPoolConfig {
    FiberPoolConfig {
        max_fibers: max_fibers.max(1) as usize,
        initial_workers: 1,
        max_workers: max_workers.max(1) as usize,
        queue_capacity: 10_000,
        idle_timeout: Duration::from_secs(60),
    }
}

fn fiber_body(id: usize, yields: u8, fail: bool, sh: Arc<Shared>) -> BoxFut<ZResult<u64>> {
    Box::pin(async move {
        sh.start(id);
        for _ in 0..yields {
            tokio::task::yield_now().await;
        }
        sh.finish(id);
        if fail {
            Err(gen_err())
        } else {
            Ok(id as u64 * 7 + 1)
        }
    })
}

/// Ok(v) -> Ok(v), Err(_) -> Err(()) so results can be compared with `==`
fn flat<T>(r: ZResult<T>) -> Result<T, ()> {
    r.map_err(|_| ())
}

/// runs `once(scale)` and, when it reports "stuck", once more with three times the rounds
fn confirm<O>(mut once: impl FnMut(u32) -> Option<(O, bool)>) -> Option<(O, bool)> {
    let first = once(1)?;
    if !first.1 {
        return Some(first);
    }
    once(3)
}

#[derive(Default)]
struct SpawnObs {
    new_err: Option<String>,
    results: Vec<Option<Result<u64, ()>>>,
    sd_first: Option<Option<bool>>,
    sd_last: Option<bool>,
    spawned: u64,
    completed: u64,
    failed: u64,
    active: usize,
    started: Vec<u32>,
    finished: Vec<u32>,
}

fn run_pool_spawn(ctx: &mut Ctx, max_fibers: u8, threads: u8, batch: bool, shutdown_first: bool, reverse: bool, tasks: &[(u8, bool)]) {
    let n = tasks.len();
    let r = try_call(|| {
        confirm(|scale| {
            let rt = build_rt(threads)?;
            let sh = Shared::new(n);
            let sh2 = sh.clone();
            let (mut obs, stuck) = rt.block_on(async move {
                let sh = sh2;
                let mut obs = SpawnObs::default();
                let mut stuck = false;
                let pool = match FiberPool::new(pool_cfg(max_fibers, 2)) {
                    Ok(p) => p,
                    Err(e) => {
                        obs.new_err = Some(format!("{e}"));
                        return (obs, false);
                    }
                };
                let futs: Vec<BoxFut<ZResult<u64>>> = tasks.iter().enumerate().map(|(id, (y, f))| fiber_body(id, *y, *f, sh.clone())).collect();
                let handles: Vec<FiberHandle<u64>> = if batch { pool.spawn_batch(futs) } else { futs.into_iter().map(|f| pool.spawn(f)).collect() };
                if shutdown_first {
                    let r = drive(pool.shutdown(), &sh.progress, scale).await;
                    stuck |= r.is_none();
                    obs.sd_first = Some(r.map(|x| x.is_ok()));
                }
                obs.results = (0..n).map(|_| None).collect();
                let mut handles: Vec<Option<FiberHandle<u64>>> = handles.into_iter().map(Some).collect();
                let order: Vec<usize> = if reverse { (0..n).rev().collect() } else { (0..n).collect() };
                for i in order {
                    let h = handles[i].take().unwrap();
                    match drive(h, &sh.progress, scale).await {
                        Some(r) => obs.results[i] = Some(flat(r)),
                        None => {
                            stuck = true;
                            break;
                        }
                    }
                }
                if !stuck {
                    let r = drive(pool.shutdown(), &sh.progress, scale).await;
                    stuck |= r.is_none();
                    obs.sd_last = r.map(|x| x.is_ok());
                }
                let st = pool.stats();
                obs.spawned = st.total_spawned;
                obs.completed = st.completed;
                obs.failed = st.failed;
                obs.active = st.active_fibers;
                (obs, stuck)
            });
            rt.shutdown_background();
            obs.started = sh.started_v();
            obs.finished = sh.finished_v();
            Some((obs, stuck))
        })
    });
    let (o, stuck) = match r {
        Ok(Some(x)) => x,
        Ok(None) => return ctx.skip("cannot build a tokio runtime"),
        Err(p) => return ctx.fail("fiber_pool", "panic", &p.class(), format!("{}:{}: {}", p.file, p.line, p.msg)),
    };
    if let Some(e) = o.new_err {
        return ctx.fail("new", "err", "", e);
    }
    ctx.label(format!("max_fibers_{max_fibers}"));
    ctx.label(format!("fibers_{}", size_class(n)));
    ctx.label(if threads == 0 { "rt_current_thread" } else { "rt_multi_thread" });
    if n > max_fibers as usize {
        ctx.nontrivial();
    }
    if stuck {
        ctx.fail("completes", "mismatch", "stuck", format!("a fiber handle or shutdown() stayed pending with no progress; finished {} of {n}", o.finished.iter().filter(|c| **c > 0).count()));
    }
    let want: Vec<Option<Result<u64, ()>>> = tasks.iter().enumerate().map(|(id, (_, f))| Some(if *f { Err(()) } else { Ok(id as u64 * 7 + 1) })).collect();
    if !stuck {
        ctx.eq("handle_result", "", &o.results, &want);
        ctx.eq("exactly_once", "", &o.started, &vec![1u32; n]);
        ctx.eq("exactly_once", "finished", &o.finished, &vec![1u32; n]);
        let nf = tasks.iter().filter(|t| t.1).count() as u64;
        ctx.eq("stats", "total_spawned", &o.spawned, &(n as u64));
        ctx.eq("stats", "completed", &o.completed, &(n as u64 - nf));
        ctx.eq("stats", "failed", &o.failed, &nf);
        ctx.eq("idle_after_drain", "active_fibers", &o.active, &0usize);
        ctx.eq("shutdown", "", &o.sd_last, &Some(true));
        if shutdown_first {
            ctx.eq("shutdown", "before_join", &o.sd_first, &Some(Some(true)));
        }
    }
}

fn run_pool_map(ctx: &mut Ctx, max_fibers: u8, threads: u8, for_each: bool, n: u16, fail_at: &[u16]) {
    let n = n as usize;
    let fails = fail_set(fail_at, n);
    let fails2 = fails.clone();
    let r = try_call(|| {
        confirm(|scale| {
            let rt = build_rt(threads)?;
            let sh = Shared::new(n);
            let sh2 = sh.clone();
            let fails = fails2.clone();
            let out: (Option<String>, Option<Result<Vec<u64>, ()>>) = rt.block_on(async move {
                let sh = sh2;
                let pool = match FiberPool::new(pool_cfg(max_fibers, 2)) {
                    Ok(p) => p,
                    Err(e) => return (Some(format!("{e}")), None),
                };
                let items: Vec<u32> = (0..n as u32).collect();
                let shc = sh.clone();
                if for_each {
                    let f = move |x: u32| -> ZResult<()> {
                        shc.start(x as usize);
                        shc.finish(x as usize);
                        if fails.contains(&x) {
                            Err(gen_err())
                        } else {
                            Ok(())
                        }
                    };
                    let r = drive(pool.parallel_for_each(items, f), &sh.progress, scale).await;
                    (None, r.map(|r| flat(r).map(|_| vec![])))
                } else {
                    let f = move |x: u32| -> ZResult<u64> {
                        shc.start(x as usize);
                        shc.finish(x as usize);
                        if fails.contains(&x) {
                            Err(gen_err())
                        } else {
                            Ok(x as u64 * 3 + 1)
                        }
                    };
                    let r = drive(pool.parallel_map(items, f), &sh.progress, scale).await;
                    (None, r.map(flat))
                }
            });
            rt.shutdown_background();
            let stuck = out.0.is_none() && out.1.is_none();
            Some(((out, sh.started_v()), stuck))
        })
    });
    let (((new_err, res), started), _) = match r {
        Ok(Some(x)) => x,
        Ok(None) => return ctx.skip("cannot build a tokio runtime"),
        Err(p) => return ctx.fail("parallel_map", "panic", &p.class(), format!("{}:{}: {}", p.file, p.line, p.msg)),
    };
    if let Some(e) = new_err {
        return ctx.fail("new", "err", "", e);
    }
    let aspect = if for_each { "parallel_for_each" } else { "parallel_map" };
    ctx.label(format!("items_{}", size_class(n)));
    ctx.label(format!("max_fibers_{max_fibers}"));
    ctx.label(if fails.is_empty() { "no_failing_item" } else { "has_failing_item" });
    if fails.iter().any(|&i| i > 0) || (fails.is_empty() && n > max_fibers as usize) {
        ctx.nontrivial();
    }
    let Some(res) = res else {
        return ctx.fail(aspect, "mismatch", "stuck", "call stayed pending with no progress".to_string());
    };
    let want: Result<Vec<u64>, ()> = if !fails.is_empty() {
        Err(())
    } else if for_each {
        Ok(vec![])
    } else {
        Ok((0..n as u64).map(|x| x * 3 + 1).collect())
    };
    ctx.eq(aspect, if fails.is_empty() { "all_ok" } else { "failing_item" }, &res, &want);
    if fails.is_empty() {
        ctx.eq("exactly_once", aspect, &started, &vec![1u32; n]);
    } else {
        ctx.ensure("exactly_once", "at_most_once", started.iter().all(|c| *c <= 1), || format!("an item was processed more than once: {:?}", started));
    }
}

fn tagged(i: u32, fail: bool) -> String {
    format!("{}{};", if fail { "!" } else { "" }, i)
}

fn concat_op(a: String, b: String) -> ZResult<String> {
    if b.contains('!') {
        Err(gen_err())
    } else {
        Ok(a + &b)
    }
}

fn run_pool_reduce(ctx: &mut Ctx, max_fibers: u8, max_workers: u8, threads: u8, n: u16, fail_at: &[u16]) {
    let n = n as usize;
    let fails = fail_set(fail_at, n);
    let items: Vec<String> = (0..n as u32).map(|i| tagged(i, fails.contains(&i))).collect();
    let items2 = items.clone();
    let r = try_call(|| {
        confirm(|scale| {
            let rt = build_rt(threads)?;
            let progress = Arc::new(AtomicU64::new(0));
            let items = items2.clone();
            let out: (Option<String>, Option<Result<String, ()>>) = rt.block_on(async move {
                let pool = match FiberPool::new(pool_cfg(max_fibers, max_workers)) {
                    Ok(p) => p,
                    Err(e) => return (Some(format!("{e}")), None),
                };
                let pr = progress.clone();
                let f = move |a: String, b: String| {
                    pr.fetch_add(1, SeqCst);
                    concat_op(a, b)
                };
                let r = drive(pool.parallel_reduce(items, String::new(), f), &progress, scale).await;
                (None, r.map(flat))
            });
            rt.shutdown_background();
            let stuck = out.0.is_none() && out.1.is_none();
            Some((out, stuck))
        })
    });
    let ((new_err, res), _) = match r {
        Ok(Some(x)) => x,
        Ok(None) => return ctx.skip("cannot build a tokio runtime"),
        Err(p) => return ctx.fail("parallel_reduce", "panic", &p.class(), format!("{}:{}: {}", p.file, p.line, p.msg)),
    };
    if let Some(e) = new_err {
        return ctx.fail("new", "err", "", e);
    }
    ctx.label(format!("items_{}", size_class(n)));
    ctx.label(format!("max_workers_{max_workers}"));
    ctx.label(if fails.is_empty() { "no_failing_item" } else { "has_failing_item" });
    if n > max_workers as usize && (fails.is_empty() || fails.iter().any(|&i| i > 0)) {
        ctx.nontrivial();
    }
    let Some(res) = res else {
        return ctx.fail("parallel_reduce", "mismatch", "stuck", "call stayed pending with no progress".to_string());
    };
    let want: Result<String, ()> = if fails.is_empty() { Ok(items.concat()) } else { Err(()) };
    ctx.eq("parallel_reduce", if fails.is_empty() { "all_ok" } else { "failing_item" }, &res, &want);
}

fn run_global_par(ctx: &mut Ctx, op: u8, threads: u8, n: u16, yields: u8, fail_at: &[u16]) {
    let n = n as usize;
    let fails = fail_set(fail_at, n);
    let fails2 = fails.clone();
    let op = op % 3;
    #[derive(Debug, PartialEq)]
    enum Out {
        Nums(Result<Vec<u64>, ()>),
        Text(Result<String, ()>),
    }
    let r = try_call(|| {
        confirm(|scale| {
            let rt = build_rt(threads)?;
            let sh = Shared::new(n);
            let sh2 = sh.clone();
            let fails = fails2.clone();
            let out: Option<Out> = rt.block_on(async move {
                let sh = sh2;
                match op {
                    0 => {
                        let shc = sh.clone();
                        let f = move |x: u32| -> ZResult<u64> {
                            shc.start(x as usize);
                            if fails.contains(&x) {
                                Err(gen_err())
                            } else {
                                Ok(x as u64 * 3 + 1)
                            }
                        };
                        let items: Vec<u32> = (0..n as u32).collect();
                        drive(zipora::concurrency::parallel_map(items, f), &sh.progress, scale).await.map(|r| Out::Nums(flat(r)))
                    }
                    1 => {
                        let items: Vec<String> = (0..n as u32).map(|i| tagged(i, fails.contains(&i))).collect();
                        let shc = sh.clone();
                        let f = move |a: String, b: String| {
                            shc.tick();
                            concat_op(a, b)
                        };
                        drive(zipora::concurrency::parallel_reduce(items, String::new(), f), &sh.progress, scale).await.map(|r| Out::Text(flat(r)))
                    }
                    _ => {
                        let handles: Vec<FiberHandle<u64>> = (0..n).map(|id| zipora::concurrency::spawn(fiber_body(id, yields, fails.contains(&(id as u32)), sh.clone()))).collect();
                        drive(zipora::concurrency::join_all(handles), &sh.progress, scale).await.map(|r| Out::Nums(flat(r)))
                    }
                }
            });
            rt.shutdown_background();
            let stuck = out.is_none();
            Some(((out, sh.started_v()), stuck))
        })
    });
    let ((res, started), _) = match r {
        Ok(Some(x)) => x,
        Ok(None) => return ctx.skip("cannot build a tokio runtime"),
        Err(p) => return ctx.fail("global_parallel", "panic", &p.class(), format!("{}:{}: {}", p.file, p.line, p.msg)),
    };
    let aspect = ["parallel_map", "parallel_reduce", "join_all"][op as usize];
    ctx.label(aspect);
    ctx.label(format!("items_{}", size_class(n)));
    ctx.label(if fails.is_empty() { "no_failing_item" } else { "has_failing_item" });
    if n >= 2 && (fails.is_empty() || fails.iter().any(|&i| i > 0)) {
        ctx.nontrivial();
    }
    let Some(res) = res else {
        return ctx.fail(aspect, "mismatch", "stuck", "call stayed pending with no progress".to_string());
    };
    let want = match op {
        0 => Out::Nums(if fails.is_empty() { Ok((0..n as u64).map(|x| x * 3 + 1).collect()) } else { Err(()) }),
        1 => Out::Text(if fails.is_empty() { Ok((0..n as u32).map(|i| tagged(i, false)).collect::<String>()) } else { Err(()) }),
        _ => Out::Nums(if fails.is_empty() { Ok((0..n as u64).map(|x| x * 7 + 1).collect()) } else { Err(()) }),
    };
    ctx.eq(aspect, if fails.is_empty() { "all_ok" } else { "failing_item" }, &res, &want);
    if op != 1 {
        if fails.is_empty() {
            ctx.eq("exactly_once", aspect, &started, &vec![1u32; n]);
        } else {
            ctx.ensure("exactly_once", "at_most_once", started.iter().all(|c| *c <= 1), || format!("an item was processed more than once: {:?}", started));
        }
    }
}

// ---------------------------------------------------------------------------------------
// pipelines
// ---------------------------------------------------------------------------------------

fn stage_fn(sid: u64, v: u64) -> u64 {
    v.wrapping_mul(3).wrapping_add(sid + 1)
}

/// Instrumented stage: counts invocations per (stage, item), optionally yields, fails on a
/// generated index set, never completes on another (so the stage timeout *must* fire).
struct TestStage {
    sid: u64,
    slot: usize,
    fail: Arc<BTreeSet<u32>>,
    hang: Arc<BTreeSet<u32>>,
    yields: u8,
    sh: Arc<Shared>,
    name: String,
    /// value reported by max_concurrency() (0 = keep the trait default of 1)
    conc: u8,
    /// uneven latencies: item i yields `yields + (7 - i % 8)` times, so later items of a group
    /// of 8 finish first when the stage really runs them concurrently
    uneven: bool,
}

impl PipelineStage<It, It> for TestStage {
    fn process(&self, input: It) -> Pin<Box<dyn Future<Output = ZResult<It>> + Send + '_>> {
        Box::pin(async move {
            self.sh.start(self.slot + input.0 as usize);
            if self.hang.contains(&input.0) {
                std::future::pending::<()>().await;
            }
            let extra = if self.uneven { 7 - (input.0 % 8) as u8 } else { 0 };
            for _ in 0..(self.yields.saturating_add(extra)) {
                tokio::task::yield_now().await;
            }
            if self.fail.contains(&input.0) {
                Err(gen_err())
            } else {
                Ok((input.0, stage_fn(self.sid, input.1)))
            }
        })
    }
    fn name(&self) -> &str {
        &self.name
    }
    fn max_concurrency(&self) -> usize {
        if self.conc == 0 { 1 } else { self.conc as usize }
    }
}

fn map_closure(sid: u64, slot: usize, fail: Arc<BTreeSet<u32>>, sh: Arc<Shared>) -> impl Fn(It) -> ZResult<It> + Send + Sync + 'static {
    move |it: It| {
        sh.start(slot + it.0 as usize);
        if fail.contains(&it.0) {
            Err(gen_err())
        } else {
            Ok((it.0, stage_fn(sid, it.1)))
        }
    }
}

fn pipe_cfg(buffer: usize, short_timeout: bool, batching: bool) -> PipelineConfig {
    PipelineConfig {
        buffer_size: buffer.max(1),
        max_in_flight: 8,
        stage_timeout: if short_timeout { Duration::from_millis(3) } else { Duration::from_secs(30) },
        enable_batching: batching,
        batch_size: 4,
        batch_timeout: Duration::from_millis(100),
    }
}

fn input_val(i: u32) -> u64 {
    (i as u64).wrapping_mul(0x9E37_79B9).wrapping_add(5)
}

fn run_pipe_single(ctx: &mut Ctx, kind: u8, two: bool, x: u32, fail1: bool, fail2: bool, hang: u8) {
    let kind = kind % 4;
    let hang = if kind == 3 || two { hang % 3 } else { 0 };
    #[derive(Debug, PartialEq)]
    enum Out {
        Item(Result<It, ()>),
        Opt(Result<Option<It>, ()>),
    }
    let r = try_call(|| {
        confirm(|scale| {
            let rt = build_rt(0)?;
            let sh = Shared::new(4);
            let sh2 = sh.clone();
            let out: Option<Out> = rt.block_on(async move {
                let sh = sh2;
                let short = hang != 0;
                let p = Pipeline::new(pipe_cfg(4, short, false));
                let f1: Arc<BTreeSet<u32>> = Arc::new(if fail1 { [0u32].into() } else { BTreeSet::new() });
                let f2: Arc<BTreeSet<u32>> = Arc::new(if fail2 { [0u32].into() } else { BTreeSet::new() });
                let h1: Arc<BTreeSet<u32>> = Arc::new(if hang == 1 { [0u32].into() } else { BTreeSet::new() });
                let h2: Arc<BTreeSet<u32>> = Arc::new(if hang == 2 { [0u32].into() } else { BTreeSet::new() });
                let item: It = (0, x as u64);
                let ts = |sid: u64, slot: usize, fail: &Arc<BTreeSet<u32>>, hang: &Arc<BTreeSet<u32>>| TestStage { sid, slot, fail: fail.clone(), hang: hang.clone(), yields: if short { 0 } else { 1 }, sh: sh.clone(), name: format!("s{sid}"), conc: 0, uneven: false };
                if two {
                    // stage 1 varies, stage 2 is the instrumented stage
                    let s2 = ts(1, 1, &f2, &h2);
                    let fut: Pin<Box<dyn Future<Output = ZResult<It>>>> = match kind {
                        0 => Box::pin(p.execute_two_stage(MapStage::new("m".into(), map_closure(0, 0, f1.clone(), sh.clone())), s2, item)),
                        1 => Box::pin(p.execute_two_stage(BatchMapStage::<_, fn(Vec<It>) -> ZResult<Vec<It>>>::new("b".into(), map_closure(0, 0, f1.clone(), sh.clone())), s2, item)),
                        _ => Box::pin(p.execute_two_stage(ts(0, 0, &f1, &h1), s2, item)),
                    };
                    drive(fut, &sh.progress, scale).await.map(|r| Out::Item(flat(r)))
                } else {
                    match kind {
                        0 => drive(p.execute_single(MapStage::new("m".into(), map_closure(0, 0, f1.clone(), sh.clone())), item), &sh.progress, scale).await.map(|r| Out::Item(flat(r))),
                        1 => drive(p.execute_single(BatchMapStage::<_, fn(Vec<It>) -> ZResult<Vec<It>>>::new("b".into(), map_closure(0, 0, f1.clone(), sh.clone())), item), &sh.progress, scale).await.map(|r| Out::Item(flat(r))),
                        2 => {
                            let keep = !fail1;
                            drive(p.execute_single(FilterStage::new("f".into(), move |_: &It| keep), item), &sh.progress, scale).await.map(|r| Out::Opt(flat(r)))
                        }
                        _ => drive(p.execute_single(ts(0, 0, &f1, &h1), item), &sh.progress, scale).await.map(|r| Out::Item(flat(r))),
                    }
                }
            });
            rt.shutdown_background();
            let stuck = out.is_none();
            Some(((out, sh.started_v()), stuck))
        })
    });
    let ((res, started), _) = match r {
        Ok(Some(x)) => x,
        Ok(None) => return ctx.skip("cannot build a tokio runtime"),
        Err(p) => return ctx.fail("execute_single", "panic", &p.class(), format!("{}:{}: {}", p.file, p.line, p.msg)),
    };
    let aspect = if two { "execute_two_stage" } else { "execute_single" };
    ctx.label(format!("{aspect}_kind{kind}"));
    ctx.nontrivial();
    let Some(res) = res else {
        return ctx.fail(aspect, "mismatch", "stuck", "call stayed pending with no progress".to_string());
    };
    let h1 = hang == 1 && (kind == 3 || (two && kind >= 2));
    let h2 = hang == 2 && two;
    let want = if two {
        let kind_filter = false;
        let _ = kind_filter;
        if fail1 || h1 {
            Out::Item(Err(()))
        } else if fail2 || h2 {
            Out::Item(Err(()))
        } else {
            Out::Item(Ok((0, stage_fn(1, stage_fn(0, x as u64)))))
        }
    } else if kind == 2 {
        Out::Opt(Ok(if fail1 { None } else { Some((0, x as u64)) }))
    } else if fail1 || h1 {
        Out::Item(Err(()))
    } else {
        Out::Item(Ok((0, stage_fn(0, x as u64))))
    };
    let class = if h1 || h2 { "timed_out_item" } else if fail1 || fail2 { "failing_item" } else { "all_ok" };
    ctx.label(class);
    ctx.eq(aspect, class, &res, &want);
    if kind != 2 {
        ctx.ensure("exactly_once", "stage1", started[0] == 1, || format!("stage 1 invoked {} times", started[0]));
    }
    if two {
        let want2 = if fail1 || h1 { 0 } else { 1 };
        ctx.eq("exactly_once", "stage2", &started[1], &want2);
    }
}

fn run_pipe_batch(ctx: &mut Ctx, kind: u8, batching: bool, n: u16, yields: u8, fail_at: &[u16], hang_at: &[u16]) {
    let kind = kind % 5;
    let n = n as usize;
    let fails = fail_set(fail_at, n);
    let hangs = if kind == 3 { fail_set(hang_at, n) } else { Arc::new(BTreeSet::new()) };
    let yields = if hangs.is_empty() { yields } else { 0 };
    #[derive(Debug, PartialEq)]
    enum Out {
        Items(Result<Vec<It>, ()>),
        Opts(Result<Vec<Option<It>>, ()>),
    }
    let (f2, h2) = (fails.clone(), hangs.clone());
    let r = try_call(|| {
        confirm(|scale| {
            let rt = build_rt(0)?;
            let sh = Shared::new(n + 1);
            let sh2 = sh.clone();
            let (fails, hangs) = (f2.clone(), h2.clone());
            let out: Option<Out> = rt.block_on(async move {
                let sh = sh2;
                let p = Pipeline::new(pipe_cfg(4, !hangs.is_empty(), batching));
                let inputs: Vec<It> = (0..n as u32).map(|i| (i, input_val(i))).collect();
                match kind {
                    0 => drive(p.process_batch(MapStage::new("m".into(), map_closure(0, 0, fails.clone(), sh.clone())), inputs), &sh.progress, scale).await.map(|r| Out::Items(flat(r))),
                    1 => drive(p.process_batch(BatchMapStage::<_, fn(Vec<It>) -> ZResult<Vec<It>>>::new("b".into(), map_closure(0, 0, fails.clone(), sh.clone())), inputs), &sh.progress, scale).await.map(|r| Out::Items(flat(r))),
                    2 => {
                        let single = map_closure(0, 0, fails.clone(), sh.clone());
                        let per_item = map_closure(0, 0, fails.clone(), sh.clone());
                        let shb = sh.clone();
                        let batch = move |v: Vec<It>| -> ZResult<Vec<It>> {
                            shb.start(n); // slot n counts batch-function invocations
                            v.into_iter().map(|it| per_item(it)).collect()
                        };
                        drive(p.process_batch(BatchMapStage::with_batch_support("bb".into(), single, batch), inputs), &sh.progress, scale).await.map(|r| Out::Items(flat(r)))
                    }
                    3 => {
                        // a stage that declares max_concurrency > 1 and whose items complete out of order: the
                        // sequence-returning API must still answer in input order
                        let st = TestStage { sid: 0, slot: 0, fail: fails.clone(), hang: hangs.clone(), yields, sh: sh.clone(), name: "t".into(), conc: 1 + (yields % 5), uneven: hangs.is_empty() };
                        drive(p.process_batch(st, inputs), &sh.progress, scale).await.map(|r| Out::Items(flat(r)))
                    }
                    _ => {
                        let drop_set = fails.clone();
                        let shf = sh.clone();
                        let st = FilterStage::new("f".into(), move |it: &It| {
                            shf.start(it.0 as usize);
                            !drop_set.contains(&it.0)
                        });
                        drive(p.process_batch(st, inputs), &sh.progress, scale).await.map(|r| Out::Opts(flat(r)))
                    }
                }
            });
            rt.shutdown_background();
            let stuck = out.is_none();
            Some(((out, sh.started_v()), stuck))
        })
    });
    let ((res, started), _) = match r {
        Ok(Some(x)) => x,
        Ok(None) => return ctx.skip("cannot build a tokio runtime"),
        Err(p) => return ctx.fail("process_batch", "panic", &p.class(), format!("{}:{}: {}", p.file, p.line, p.msg)),
    };
    let kname = ["map", "batchmap_plain", "batchmap_batchfn", "instrumented", "filter"][kind as usize];
    ctx.label(format!("stage_{kname}"));
    ctx.label(format!("items_{}", size_class(n)));
    ctx.label(if batching { "batching_on" } else { "batching_off" });
    let bad: BTreeSet<u32> = if kind == 4 { BTreeSet::new() } else { fails.iter().chain(hangs.iter()).copied().collect() };
    if bad.iter().any(|&i| i > 0) || (bad.is_empty() && n >= 2) {
        ctx.nontrivial();
    }
    let Some(res) = res else {
        return ctx.fail("process_batch", "mismatch", "stuck", "call stayed pending with no progress".to_string());
    };
    let class = if !hangs.is_empty() { "timed_out_item" } else if !bad.is_empty() { "failing_item" } else { "all_ok" };
    ctx.label(class);
    let want = if kind == 4 {
        Out::Opts(Ok((0..n as u32).map(|i| if fails.contains(&i) { None } else { Some((i, input_val(i))) }).collect()))
    } else if bad.is_empty() {
        Out::Items(Ok((0..n as u32).map(|i| (i, stage_fn(0, input_val(i)))).collect()))
    } else {
        Out::Items(Err(()))
    };
    ctx.eq("process_batch", &format!("{class},{kname}"), &res, &want);
    let per_item = &started[..n];
    if bad.is_empty() {
        ctx.eq("exactly_once", kname, &per_item.to_vec(), &vec![1u32; n]);
        if kind == 2 && batching && n > 0 {
            ctx.eq("exactly_once", "batch_fn_calls", &started[n], &1u32);
        }
    } else {
        ctx.ensure("exactly_once", "at_most_once", per_item.iter().all(|c| *c <= 1), || format!("an item was processed more than once: {:?}", per_item));
    }
}

fn run_pipe_stream(ctx: &mut Ctx, stages: u8, buffer: u8, in_cap: u8, threads: u8, n: u16, yields: u8, fail: &[(u8, u16)], hang: &[(u8, u16)]) {
    let ns = (stages.max(1).min(3)) as usize;
    let n = n as usize;
    // per-stage failing / hanging index sets
    let mut fsets: Vec<BTreeSet<u32>> = vec![BTreeSet::new(); ns];
    let mut hsets: Vec<BTreeSet<u32>> = vec![BTreeSet::new(); ns];
    if n > 0 {
        for (s, i) in fail {
            fsets[*s as usize % ns].insert(crate::gen::idx(*i, n) as u32);
        }
        for (s, i) in hang {
            // only instrumented stages (even positions) can hang
            let s = *s as usize % ns;
            if s % 2 == 0 {
                hsets[s].insert(crate::gen::idx(*i, n) as u32);
            }
        }
    }
    let any_hang = hsets.iter().any(|h| !h.is_empty());
    let yields = if any_hang { 0 } else { yields };
    // the first item (in input order) at which some stage fails or times out
    let first_bad: Option<u32> = fsets.iter().chain(hsets.iter()).flat_map(|s| s.iter().copied()).min();
    let (fs2, hs2) = (fsets.clone(), hsets.clone());
    let second: Arc<Mutex<Option<Result<Vec<It>, String>>>> = Arc::new(Mutex::new(None));
    let r = try_call(|| {
        confirm(|scale| {
            let rt = build_rt(threads)?;
            let sh = Shared::new(ns * n.max(1));
            let sh2 = sh.clone();
            let (fsets, hsets) = (fs2.clone(), hs2.clone());
            *second.lock().unwrap() = None;
            let second2 = second.clone();
            let out: (Option<Result<(), ()>>, Option<Vec<It>>) = rt.block_on(async move {
                let sh = sh2;
                // max_in_flight 1, 2 or 8: a pipeline that honours the limit must still deliver everything
                let p = Pipeline::new(PipelineConfig { max_in_flight: [1usize, 2, 8][in_cap as usize % 3], ..pipe_cfg(buffer as usize, any_hang, false) });
                let mut st: Vec<Box<dyn PipelineStage<It, It>>> = vec![];
                for s in 0..ns {
                    let f = Arc::new(fsets[s].clone());
                    if s % 2 == 0 {
                        st.push(Box::new(TestStage { sid: s as u64, slot: s * n, fail: f, hang: Arc::new(hsets[s].clone()), yields, sh: sh.clone(), name: format!("t{s}"), conc: 0, uneven: false }));
                    } else {
                        st.push(Box::new(MapStage::new(format!("m{s}"), map_closure(s as u64, s * n, f, sh.clone()))));
                    }
                }
                let (in_tx, in_rx) = tokio::sync::mpsc::channel::<It>(in_cap.max(1) as usize);
                let (out_tx, mut out_rx) = tokio::sync::mpsc::channel::<It>(buffer.max(1) as usize);
                let shp = sh.clone();
                let producer = tokio::spawn(async move {
                    for i in 0..n as u32 {
                        if in_tx.send((i, input_val(i))).await.is_err() {
                            break;
                        }
                        shp.tick();
                    }
                });
                let shc = sh.clone();
                let consumer = tokio::spawn(async move {
                    let mut v = vec![];
                    while let Some(x) = out_rx.recv().await {
                        v.push(x);
                        shc.tick();
                    }
                    v
                });
                let res = drive(p.execute_stream(st, in_rx, out_tx), &sh.progress, scale).await;
                if res.is_none() {
                    producer.abort();
                    consumer.abort();
                    return (None, None);
                }
                let outv = drive(consumer, &sh.progress, scale).await.and_then(|r| r.ok());
                producer.abort();
                // the same Pipeline object serves a second, healthy stream afterwards (whatever
                // the first one did: completed, failed, timed out): 6 items through one stage
                if outv.is_some() {
                    let st2: Vec<Box<dyn PipelineStage<It, It>>> = vec![Box::new(MapStage::new("again".to_string(), |it: It| -> ZResult<It> { Ok((it.0, stage_fn(7, it.1))) }))];
                    let (tx2, rx2) = tokio::sync::mpsc::channel::<It>(8);
                    let (otx2, mut orx2) = tokio::sync::mpsc::channel::<It>(8);
                    let prod2 = tokio::spawn(async move {
                        for i in 0..6u32 {
                            if tx2.send((i, input_val(i))).await.is_err() {
                                break;
                            }
                        }
                    });
                    let shc2 = sh.clone();
                    let cons2 = tokio::spawn(async move {
                        let mut v = vec![];
                        while let Some(x) = orx2.recv().await {
                            v.push(x);
                            shc2.tick();
                        }
                        v
                    });
                    let r2 = drive(p.execute_stream(st2, rx2, otx2), &sh.progress, scale).await;
                    let v2 = if r2.is_some() { drive(cons2, &sh.progress, scale).await.and_then(|r| r.ok()) } else { cons2.abort(); None };
                    prod2.abort();
                    *second2.lock().unwrap() = Some(match (r2.map(flat), v2) {
                        (Some(Ok(())), Some(v)) => Ok(v),
                        (Some(Err(())), _) => Err("execute_stream returned Err".to_string()),
                        _ => Err("stayed pending with no progress".to_string()),
                    });
                }
                (res.map(flat), outv)
            });
            rt.shutdown_background();
            let stuck = out.0.is_none() || out.1.is_none() || matches!(&*second.lock().unwrap(), Some(Err(e)) if e.starts_with("stayed"));
            Some(((out, sh.started_v()), stuck))
        })
    });
    let (((res, outv), started), _) = match r {
        Ok(Some(x)) => x,
        Ok(None) => return ctx.skip("cannot build a tokio runtime"),
        Err(p) => return ctx.fail("execute_stream", "panic", &format!("{},{}", if ns >= 2 { "stages>=2" } else { "stages=1" }, p.class()), format!("{}:{}: {}", p.file, p.line, p.msg)),
    };
    ctx.label(format!("stages_{ns}"));
    ctx.label(format!("items_{}", size_class(n)));
    ctx.label(format!("buffer_{}", if buffer <= 1 { "1" } else { "2+" }));
    let class = match first_bad {
        None => "all_ok",
        Some(_) if any_hang => "timed_out_item",
        Some(_) => "failing_item",
    };
    ctx.label(class);
    if first_bad.map_or(n > buffer as usize, |i| i > 0) {
        ctx.nontrivial();
    }
    let (Some(res), Some(outv)) = (res, outv) else {
        return ctx.fail("execute_stream", "mismatch", "stuck", "execute_stream or its output channel stayed pending with no progress".to_string());
    };
    // second use of the same pipeline object
    match second.lock().unwrap().take() {
        Some(Ok(v)) => {
            let want: Vec<It> = (0..6u32).map(|i| (i, stage_fn(7, input_val(i)))).collect();
            ctx.eq("stream_output", &format!("pipeline_reused_after_{class}"), &v, &want);
        }
        Some(Err(e)) => ctx.fail("execute_stream", "mismatch", &format!("pipeline_reused_after_{class}"), format!("a healthy 6-item stream on the same Pipeline object after the first stream: {e}")),
        None => {}
    }
    let full: Vec<It> = (0..n as u32).map(|i| (i, (0..ns as u64).fold(input_val(i), |v, s| stage_fn(s, v)))).collect();
    match first_bad {
        None => {
            ctx.eq("execute_stream", "all_ok", &res, &Ok(()));
            ctx.eq("stream_output", "all_ok", &outv, &full);
            if n > 0 {
                ctx.eq("exactly_once", "stream", &started, &vec![1u32; ns * n]);
            }
        }
        Some(_) => {
            // whatever was delivered must be the correct, unshifted prefix ...
            let is_prefix = outv.len() <= full.len() && outv[..] == full[..outv.len()];
            ctx.ensure("stream_output", class, is_prefix, || format!("delivered items are not a prefix of the sequential result: got {:?}", &outv[..outv.len().min(6)]));
            ctx.ensure("exactly_once", "at_most_once", started.iter().all(|c| *c <= 1), || "an item was processed twice by one stage".to_string());
            // ... and the failure must surface as an error
            ctx.out.checks += 1;
            if res.is_ok() {
                ctx.fail(
                    "failure_surfaces",
                    "mismatch",
                    &format!("stream_returns_ok,{class}"),
                    format!("a stage failed/timed out on item {:?} of {n}; execute_stream returned Ok(()) and delivered {} of {n} results", first_bad, outv.len()),
                );
            }
        }
    }
}

fn run_collector(ctx: &mut Ctx, max: u8, timeout_zero: bool, ops: &[COp]) {
    let max = max.max(1) as usize;
    let ops2 = ops.to_vec();
    let r = try_call(|| {
        let rt = build_rt(0)?;
        let out: Option<(Vec<Option<Vec<u32>>>, Option<Vec<u32>>, usize)> = rt.block_on(async move {
            let progress = AtomicU64::new(0);
            let c: BatchCollector<u32> = BatchCollector::new(max, if timeout_zero { Duration::ZERO } else { Duration::from_secs(3600) });
            let fut = async {
                let mut answers = vec![];
                let mut next = 0u32;
                for op in &ops2 {
                    let a = match op {
                        COp::Add => {
                            next += 1;
                            c.add(next - 1).await
                        }
                        COp::Flush => c.flush().await,
                        COp::Check => c.check_timeout().await,
                    };
                    progress.fetch_add(1, SeqCst);
                    answers.push(a.ok().flatten());
                }
                let len = c.len().await;
                let last = c.flush().await.ok().flatten();
                (answers, last, len)
            };
            drive(fut, &progress, 1).await
        });
        Some(out)
    });
    let out = match r {
        Ok(Some(x)) => x,
        Ok(None) => return ctx.skip("cannot build a tokio runtime"),
        Err(p) => return ctx.fail("batch_collector", "panic", &p.class(), format!("{}:{}: {}", p.file, p.line, p.msg)),
    };
    let Some((answers, last, len)) = out else {
        return ctx.fail("batch_collector", "mismatch", "stuck", "a collector call never completed".to_string());
    };
    // model: a plain buffer
    let mut buf: Vec<u32> = vec![];
    let mut next = 0u32;
    let mut emitted_model: Vec<u32> = vec![];
    let mut emitted_impl: Vec<u32> = vec![];
    let mut adds = 0;
    for (op, got) in ops.iter().zip(&answers) {
        let want: Option<Vec<u32>> = match op {
            COp::Add => {
                adds += 1;
                buf.push(next);
                next += 1;
                if buf.len() >= max { Some(std::mem::take(&mut buf)) } else { None }
            }
            COp::Flush => if buf.is_empty() { None } else { Some(std::mem::take(&mut buf)) },
            COp::Check => if timeout_zero && !buf.is_empty() { Some(std::mem::take(&mut buf)) } else { None },
        };
        let aspect = match op { COp::Add => "collector_add", COp::Flush => "collector_flush", COp::Check => "collector_check_timeout" };
        if let Some(w) = &want {
            emitted_model.extend(w);
        }
        if let Some(g) = got {
            emitted_impl.extend(g);
        }
        if !ctx.eq(aspect, "", got, &want) {
            break;
        }
    }
    if let Some(l) = &last {
        emitted_impl.extend(l);
    }
    ctx.label(format!("max_batch_{}", if max == 1 { "1" } else if max <= 4 { "2-4" } else { "5+" }));
    ctx.label(if timeout_zero { "timeout_zero" } else { "timeout_never" });
    if adds > max {
        ctx.nontrivial();
    }
    // concatenation law: nothing lost, duplicated or reordered
    ctx.eq("collector_conservation", "", &emitted_impl, &(0..next).collect::<Vec<u32>>());
    let _ = (emitted_model, len);
}

// ---------------------------------------------------------------------------------------
// cooperative helpers (fiber_yield / fiber_aio) and the async blob store
// ---------------------------------------------------------------------------------------

fn run_helpers(ctx: &mut Ctx, op: u8, n: u16, interval: u8, max_conc: u8, fail_at: &[u16]) {
    use zipora::concurrency::{CooperativeUtils, FiberIoUtils, YieldingIterator};
    let op = op % 7;
    let n = n as usize;
    let interval = interval.max(1) as usize;
    let max_conc = max_conc.max(1) as usize;
    // collect() has no failure channel
    let fails = if op == 3 { Arc::new(BTreeSet::new()) } else { fail_set(fail_at, n) };
    let f2 = fails.clone();
    let r = try_call(|| {
        confirm(|scale| {
            let rt = build_rt(0)?;
            let sh = Shared::new(n);
            let sh2 = sh.clone();
            let fails = f2.clone();
            let out: Option<Result<Vec<u64>, ()>> = rt.block_on(async move {
                let sh = sh2;
                let shc = sh.clone();
                let fl = fails.clone();
                let f = move |i: usize| -> ZResult<u64> {
                    shc.start(i);
                    if fl.contains(&(i as u32)) {
                        Err(gen_err())
                    } else {
                        Ok(i as u64 * 2 + 1)
                    }
                };
                match op {
                    0 => drive(CooperativeUtils::run_with_yield(n, interval, f), &sh.progress, scale).await.map(flat),
                    1 => drive(CooperativeUtils::process_vec_yielding((0..n).collect::<Vec<usize>>(), interval, f), &sh.progress, scale).await.map(flat),
                    2 => {
                        let mut seen = vec![];
                        let r = drive(YieldingIterator::new(0..n, interval).for_each(|i| f(i).map(|v| seen.push(v))), &sh.progress, scale).await;
                        r.map(|r| flat(r).map(|cnt| {
                            seen.push(cnt as u64); // processed count rides at the end
                            seen
                        }))
                    }
                    3 => {
                        let it = (0..n).map(|i| {
                            sh.start(i);
                            i as u64 * 2 + 1
                        });
                        drive(YieldingIterator::new(it, interval).collect::<Vec<u64>>(), &sh.progress, scale).await.map(Ok)
                    }
                    4 => {
                        let shb = sh.clone();
                        let fl = fails.clone();
                        let proc_ = move |chunk: Vec<usize>| -> BoxFut<ZResult<Vec<u64>>> {
                            let (shb, fl) = (shb.clone(), fl.clone());
                            Box::pin(async move {
                                tokio::task::yield_now().await;
                                chunk
                                    .into_iter()
                                    .map(|i| {
                                        shb.start(i);
                                        if fl.contains(&(i as u32)) { Err(gen_err()) } else { Ok(i as u64 * 2 + 1) }
                                    })
                                    .collect()
                            })
                        };
                        drive(FiberIoUtils::batch_process(0..n, interval, proc_), &sh.progress, scale).await.map(flat)
                    }
                    5 => {
                        let ops: Vec<BoxFut<ZResult<u64>>> = (0..n)
                            .map(|i| {
                                let (shb, fl) = (sh.clone(), fails.clone());
                                let b: BoxFut<ZResult<u64>> = Box::pin(async move {
                                    shb.start(i);
                                    for _ in 0..(i % 3) {
                                        tokio::task::yield_now().await;
                                    }
                                    if fl.contains(&(i as u32)) { Err(gen_err()) } else { Ok(i as u64 * 2 + 1) }
                                });
                                b
                            })
                            .collect();
                        drive(CooperativeUtils::concurrent_with_yield(ops, max_conc), &sh.progress, scale).await.map(flat)
                    }
                    _ => {
                        let paths: Vec<String> = (0..n).map(|i| format!("p{i}")).collect();
                        let (shb, fl) = (sh.clone(), fails.clone());
                        let proc_ = move |p: String| -> BoxFut<ZResult<u64>> {
                            let (shb, fl) = (shb.clone(), fl.clone());
                            Box::pin(async move {
                                let i: usize = p[1..].parse().unwrap_or(usize::MAX);
                                shb.start(i);
                                for _ in 0..(i % 3) {
                                    tokio::task::yield_now().await;
                                }
                                if fl.contains(&(i as u32)) { Err(gen_err()) } else { Ok(i as u64 * 2 + 1) }
                            })
                        };
                        drive(FiberIoUtils::process_files_parallel(paths, max_conc, proc_), &sh.progress, scale).await.map(flat)
                    }
                }
            });
            rt.shutdown_background();
            let stuck = out.is_none();
            Some(((out, sh.started_v()), stuck))
        })
    });
    let ((res, started), _) = match r {
        Ok(Some(x)) => x,
        Ok(None) => return ctx.skip("cannot build a tokio runtime"),
        Err(p) => return ctx.fail("helpers", "panic", &p.class(), format!("{}:{}: {}", p.file, p.line, p.msg)),
    };
    let aspect = ["run_with_yield", "process_vec_yielding", "yielding_for_each", "yielding_collect", "batch_process", "concurrent_with_yield", "process_files_parallel"][op as usize];
    ctx.label(aspect);
    ctx.label(format!("items_{}", size_class(n)));
    ctx.label(if fails.is_empty() { "no_failing_item" } else { "has_failing_item" });
    if n > interval && (fails.is_empty() || fails.iter().any(|&i| i > 0)) {
        ctx.nontrivial();
    }
    let Some(res) = res else {
        return ctx.fail(aspect, "mismatch", "stuck", "call stayed pending with no progress".to_string());
    };
    let mut seq: Vec<u64> = (0..n as u64).map(|i| i * 2 + 1).collect();
    if op == 2 {
        seq.push(n as u64);
    }
    let class = if fails.is_empty() { "all_ok" } else { "failing_item" };
    if !fails.is_empty() {
        ctx.eq(aspect, class, &res, &Err(()));
    } else if op >= 5 {
        // the two buffer_unordered helpers do not document an order: compare as multisets
        match res {
            Ok(mut v) => {
                ctx.label(if v == seq { "order_preserved" } else { "order_permuted" });
                v.sort_unstable();
                ctx.eq(aspect, "multiset", &v, &seq);
            }
            Err(()) => ctx.fail(aspect, "err", class, "returned Err although no operation failed".to_string()),
        }
    } else {
        ctx.eq(aspect, class, &res, &Ok(seq));
    }
    if fails.is_empty() {
        ctx.eq("exactly_once", aspect, &started, &vec![1u32; n]);
    } else {
        ctx.ensure("exactly_once", "at_most_once", started.iter().all(|c| *c <= 1), || format!("an item was processed more than once: {:?}", started));
    }
}

fn blob(i: usize, len: u8) -> Vec<u8> {
    let mut v = (i as u32).to_le_bytes().to_vec();
    v.extend(std::iter::repeat((i as u8).wrapping_mul(31)).take(len as usize));
    v
}

fn run_blob_store(ctx: &mut Ctx, threads: u8, lens: &[u8], batch: u8, yields: u8) {
    use zipora::concurrency::{AsyncBlobStore, AsyncMemoryBlobStore};
    let n = lens.len();
    let nb = batch as usize;
    let lens2 = lens.to_vec();
    #[derive(Default)]
    struct Obs {
        ids: Vec<Option<u32>>,
        got: Vec<Option<Vec<u8>>>,
        len_after_put: usize,
        batch_ok: Option<bool>,
        batch_back: Option<Vec<Vec<u8>>>,
        removes_ok: Vec<u32>,
        len_end: usize,
    }
    let r = try_call(|| {
        confirm(|scale| {
            let rt = build_rt(threads)?;
            let progress = Arc::new(AtomicU64::new(0));
            let lens = lens2.clone();
            let out: Option<Obs> = rt.block_on(async move {
                let store = Arc::new(AsyncMemoryBlobStore::new());
                let pr = progress.clone();
                let st2 = store.clone();
                let fut = async move {
                    let store = st2;
                    let mut o = Obs::default();
                    // concurrent puts
                    let hs: Vec<_> = (0..n)
                        .map(|i| {
                            let (s, pr, data) = (store.clone(), pr.clone(), blob(i, lens[i]));
                            tokio::spawn(async move {
                                for _ in 0..(yields as usize + i) % 3 {
                                    tokio::task::yield_now().await;
                                }
                                pr.fetch_add(1, SeqCst);
                                s.put(&data).await.ok()
                            })
                        })
                        .collect();
                    for h in hs {
                        o.ids.push(h.await.ok().flatten());
                    }
                    o.len_after_put = store.len().await;
                    for id in &o.ids {
                        pr.fetch_add(1, SeqCst);
                        o.got.push(match id {
                            Some(id) => store.get(*id).await.ok(),
                            None => None,
                        });
                    }
                    // ordered batch
                    let bdata: Vec<Vec<u8>> = (0..nb).map(|i| blob(1000 + i, (i % 5) as u8)).collect();
                    let refs: Vec<&[u8]> = bdata.iter().map(|v| v.as_slice()).collect();
                    let bids = store.put_batch(refs).await;
                    pr.fetch_add(1, SeqCst);
                    o.batch_ok = Some(bids.is_ok());
                    if let Ok(bids) = bids {
                        o.batch_back = store.get_batch(bids).await.ok();
                    }
                    // every stored record can be removed exactly once: two removers per id
                    let rs: Vec<_> = o
                        .ids
                        .iter()
                        .flatten()
                        .flat_map(|id| [*id, *id])
                        .map(|id| {
                            let (s, pr) = (store.clone(), pr.clone());
                            tokio::spawn(async move {
                                pr.fetch_add(1, SeqCst);
                                s.remove(id).await.is_ok()
                            })
                        })
                        .collect();
                    o.removes_ok = vec![0; o.ids.iter().flatten().count()];
                    for (k, h) in rs.into_iter().enumerate() {
                        if h.await.unwrap_or(false) {
                            o.removes_ok[k / 2] += 1;
                        }
                    }
                    o.len_end = store.len().await;
                    o
                };
                drive(fut, &progress, scale).await
            });
            rt.shutdown_background();
            let stuck = out.is_none();
            Some((out, stuck))
        })
    });
    let o = match r {
        Ok(Some((Some(o), _))) => o,
        Ok(Some((None, _))) => return ctx.fail("blob_store", "mismatch", "stuck", "store operations stayed pending with no progress".to_string()),
        Ok(None) => return ctx.skip("cannot build a tokio runtime"),
        Err(p) => return ctx.fail("blob_store", "panic", &p.class(), format!("{}:{}: {}", p.file, p.line, p.msg)),
    };
    ctx.label(format!("blobs_{}", size_class(n)));
    ctx.label(if threads == 0 { "rt_current_thread" } else { "rt_multi_thread" });
    if n >= 2 {
        ctx.nontrivial();
    }
    ctx.ensure("put", "", o.ids.iter().all(|i| i.is_some()), || "a concurrent put failed".to_string());
    let distinct: BTreeSet<u32> = o.ids.iter().flatten().copied().collect();
    ctx.eq("put_ids_distinct", "", &distinct.len(), &o.ids.iter().flatten().count());
    ctx.eq("len", "after_put", &o.len_after_put, &n);
    let want: Vec<Option<Vec<u8>>> = (0..n).map(|i| Some(blob(i, lens[i]))).collect();
    ctx.eq("get", "after_concurrent_put", &o.got, &want);
    ctx.eq("put_batch", "", &o.batch_ok, &Some(true));
    let wantb: Vec<Vec<u8>> = (0..nb).map(|i| blob(1000 + i, (i % 5) as u8)).collect();
    ctx.eq("get_batch", "order", &o.batch_back, &Some(wantb));
    ctx.eq("remove_exactly_once", "", &o.removes_ok, &vec![1u32; o.ids.iter().flatten().count()]);
    ctx.eq("len", "after_remove", &o.len_end, &nb);
}

// ---------------------------------------------------------------------------------------
// generators
// ---------------------------------------------------------------------------------------

fn tspec() -> impl Strategy<Value = TSpec> {
    (0u8..4, prop::bool::weighted(0.8), 0u8..3, prop::bool::weighted(0.1)).prop_map(|(prio, stealable, yields, fail)| TSpec { prio, stealable, yields, fail })
}

fn cap_strategy() -> BoxedStrategy<u16> {
    prop_oneof![3 => 1u16..=8, 1 => Just(64u16), 1 => Just(128u16), 2 => Just(256u16)].boxed()
}

/// task counts around the rebalance period (100, 200, 300), around the queue capacity and its
/// multiples (overflow into the global queue), plus small and uniform ones
fn burst_n(workers: usize, cap: usize) -> BoxedStrategy<u16> {
    let around = |c: usize| (c.saturating_sub(2).min(1100) as u16)..=((c + 2).min(1100) as u16);
    prop_oneof![
        4 => proptest::sample::select(vec![98u16, 99, 100, 101, 102, 103, 150, 199, 200, 201, 202, 203, 300]),
        2 => around(cap),
        1 => around(2 * cap),
        1 => around(workers * cap),
        1 => around(4 * cap),
        1 => 0u16..=((4 * cap).min(1100) as u16),
        3 => 0u16..=8,
    ]
    .boxed()
}

fn exec_case(workers: BoxedStrategy<u8>, threads: BoxedStrategy<u8>, max_steps: usize) -> BoxedStrategy<Case> {
    (workers, cap_strategy(), threads, 0u8..3)
        .prop_flat_map(move |(w, cap, t, api)| {
            let step = prop_oneof![
                3 => tspec().prop_map(Step::Submit),
                3 => (burst_n(w as usize, cap as usize), 0u8..6, any::<u32>()).prop_map(|(n, mix, seed)| Step::Burst { n, mix, seed }),
                3 => (1u8..=8).prop_map(Step::Yield),
            ];
            proptest::collection::vec(step, 0..=max_steps).prop_map(move |steps| Case::Exec { workers: w, cap, threads: t, api, steps })
        })
        .boxed()
}

fn qop() -> impl Strategy<Value = QOp> {
    prop_oneof![
        5 => (0u8..4, prop::bool::weighted(0.75)).prop_map(|(prio, stealable)| QOp::Push { prio, stealable }),
        2 => Just(QOp::Pop),
        2 => Just(QOp::Steal),
        2 => Just(QOp::Balance),
    ]
}

fn fail_idx(max: usize) -> BoxedStrategy<Vec<u16>> {
    prop_oneof![
        4 => Just(vec![]),
        3 => proptest::collection::vec(any::<u16>(), 1..=1),
        2 => proptest::collection::vec(any::<u16>(), 1..=max.max(1)),
        1 => Just(vec![u16::MAX]),
        1 => Just(vec![0u16]),
    ]
    .boxed()
}

fn n_items(max: u16) -> BoxedStrategy<u16> {
    prop_oneof![3 => 0u16..=5, 3 => 0u16..=max, 1 => Just(max), 1 => proptest::sample::select(vec![1u16, 2, 3, 4, 7, 8, 9, 15, 16, 17, 31, 32, 33, 63, 64, 65]).prop_map(move |v| v.min(max))].boxed()
}

fn threads01() -> BoxedStrategy<u8> {
    prop_oneof![3 => Just(0u8), 1 => 2u8..=3].boxed()
}

fn max_fibers() -> BoxedStrategy<u8> {
    proptest::sample::select(vec![1u8, 1, 2, 2, 3, 64]).boxed()
}

// ---------------------------------------------------------------------------------------
// the property
// ---------------------------------------------------------------------------------------

impl Prop for P {
    fn id(&self) -> &'static str {
        "C18"
    }
    fn rule(&self) -> &'static str {
        "ws_queue: push/pop/steal/balance histories over one WorkStealingQueue with id-carrying tasks; ws_exec_*: Submit/Burst/Yield(k) step lists against a WorkStealingExecutor on a harness-owned current-thread runtime (1 worker, 2-4 workers) or a multi-thread runtime, task counts biased to 98..103/150/199..203/300 and to capacity multiples, capacity in {1-8,64,128,256}; fiber pool / global parallel_map, for_each, reduce (string concatenation), spawn+join; pipeline execute_single/two_stage/process_batch/execute_stream with failing and never-completing items; BatchCollector histories; cooperative helpers; async memory blob store. Non-trivial = more tasks than one queue's capacity or >= 101 accepted tasks (executor), push count above capacity or push+balance+steal (queue), a failing item not at index 0 or more items than the concurrency limit (pools, pipelines, helpers). Distinct by hash of the case JSON."
    }
    fn assumptions(&self) -> Vec<String> {
        vec![
            "a submission answered with Err is 'rejected': it must never run; it is not a violation".into(),
            "'stuck' is decided by progress counters only: total_queued()>0 or unfinished accepted tasks, active_tasks==0, and (total_executed, total_queued, harness progress counter) unchanged for 130 yield rounds + 10 sleep rounds of 2 ms (current-thread) / 50 yield rounds + 150 sleep rounds of 1 ms (multi-thread); it is then re-run from scratch with 3x (current-thread) / 6x (multi-thread) the sleep rounds and only reported if stuck again".into(),
            "tasks return Err to model failure; panicking tasks are not generated (the API does not say what a panicking task does to its worker)".into(),
            "never-completing pipeline items are only combined with immediately-ready fast items (stage_timeout 3 ms), so a timeout can never hit a healthy item".into(),
            "FiberPoolConfig::max_workers / max_fibers = 0, batch/yield intervals of 0 and max_concurrent = 0 are not generated (API silent; they divide by zero or never poll)".into(),
            "CooperativeUtils::concurrent_with_yield and FiberIoUtils::process_files_parallel use buffer_unordered and do not document an order: results are compared as multisets; whether order was preserved is only labelled".into(),
            "FiberPool::shutdown is only required to return Ok and not to lose or cancel fibers (handles awaited afterwards still complete exactly once)".into(),
            "on the multi-thread runtime only schedule-independent clauses are asserted".into(),
        ]
    }
    fn cpu_budget_s(&self) -> u64 {
        60
    }
    fn hang_is_violation(&self) -> bool {
        true
    }
    fn plans(&self, tier: Tier) -> Vec<Plan> {
        let q = |a, b| tier.pick(a, b);
        let qlen = q(40, 120);
        let items = q(200, 600) as u16;
        let mut v = vec![];
        v.push(Plan::new(
            "ws_queue",
            q(18_000, 300_000),
            0,
            (prop_oneof![3 => 1u16..=8, 1 => Just(64u16)], proptest::collection::vec(qop(), 0..=qlen)).prop_map(|(cap, ops)| Case::Queue { cap, ops }),
        ));
        // lone submits to an executor that has gone idle (lost wake-ups need thousands of attempts)
        v.push(Plan::new(
            "ws_exec_pingpong",
            q(8, 120),
            0,
            // a round costs about one idle-poll period of the executor (tens of ms): the quick
            // tier makes ~30 000 attempts, the thorough tier ~400 000
            (1u8..=4, q(400, 2000)..=q(800, 5000), proptest::collection::vec(any::<u8>(), 1..24)).prop_map(|(workers, rounds, pauses)| Case::PingPong { workers, rounds: rounds as u16, pauses }),
        ));
        v.push(Plan::new("ws_exec_1worker", q(2400, 40_000), 0, exec_case(Just(1u8).boxed(), Just(0u8).boxed(), 8)));
        v.push(Plan::new("ws_exec_multi", q(9000, 150_000), 0, exec_case((2u8..=4).boxed(), Just(0u8).boxed(), 10)));
        v.push(Plan::new("ws_exec_mt", q(2000, 40_000), 0, exec_case(prop_oneof![1 => Just(1u8), 6 => 2u8..=4].boxed(), (2u8..=4).boxed(), 8)));
        v.push(Plan::new(
            "fiber_pool_spawn",
            q(3000, 60_000),
            0,
            (max_fibers(), threads01(), any::<bool>(), any::<bool>(), any::<bool>(), n_items(items).prop_flat_map(|n| proptest::collection::vec((0u8..3, prop::bool::weighted(0.15)), n as usize)))
                .prop_map(|(max_fibers, threads, batch, shutdown_first, reverse, tasks)| Case::PoolSpawn { max_fibers, threads, batch, shutdown_first, reverse, tasks }),
        ));
        v.push(Plan::new(
            "fiber_pool_map",
            q(3600, 70_000),
            0,
            (max_fibers(), threads01(), any::<bool>(), n_items(items), fail_idx(3)).prop_map(|(max_fibers, threads, for_each, n, fail_at)| Case::PoolMap { max_fibers, threads, for_each, n, fail_at }),
        ));
        v.push(Plan::new(
            "fiber_pool_reduce",
            q(3000, 60_000),
            0,
            (max_fibers(), proptest::sample::select(vec![1u8, 2, 3, 8, 16]), threads01(), n_items(items), fail_idx(3))
                .prop_map(|(max_fibers, max_workers, threads, n, fail_at)| Case::PoolReduce { max_fibers, max_workers, threads, n, fail_at }),
        ));
        v.push(Plan::new(
            "global_parallel",
            q(3000, 60_000),
            0,
            (0u8..3, threads01(), n_items(items), 0u8..3, fail_idx(3)).prop_map(|(op, threads, n, yields, fail_at)| Case::GlobalPar { op, threads, n, yields, fail_at }),
        ));
        v.push(Plan::new(
            "pipeline_single",
            q(2400, 50_000),
            0,
            (0u8..4, any::<bool>(), any::<u32>(), prop::bool::weighted(0.25), prop::bool::weighted(0.25), prop_oneof![4 => Just(0u8), 1 => 1u8..3])
                .prop_map(|(kind, two, x, fail1, fail2, hang)| Case::PipeSingle { kind, two, x, fail1, fail2, hang }),
        ));
        v.push(Plan::new(
            "pipeline_batch",
            q(4500, 90_000),
            0,
            (0u8..5, any::<bool>(), n_items(items), 0u8..3, fail_idx(3), prop_oneof![5 => Just(vec![]), 1 => proptest::collection::vec(any::<u16>(), 1..=1)])
                .prop_map(|(kind, batching, n, yields, fail_at, hang_at)| Case::PipeBatch { kind, batching, n, yields, fail_at, hang_at }),
        ));
        v.push(Plan::new(
            "pipeline_stream",
            q(3600, 70_000),
            0,
            (
                (prop_oneof![2 => Just(1u8), 1 => 2u8..=3], 1u8..=8, 1u8..=8, threads01(), n_items(items), 0u8..3),
                prop_oneof![3 => Just(vec![]), 2 => proptest::collection::vec((0u8..3, any::<u16>()), 1..=2)],
                prop_oneof![8 => Just(vec![]), 1 => proptest::collection::vec((0u8..3, any::<u16>()), 1..=1)],
            )
                .prop_map(|((stages, buffer, in_cap, threads, n, yields), fail, hang)| Case::PipeStream { stages, buffer, in_cap, threads, n, yields, fail, hang }),
        ));
        v.push(Plan::new(
            "batch_collector",
            q(6000, 120_000),
            0,
            (1u8..=16, any::<bool>(), proptest::collection::vec(prop_oneof![6 => Just(COp::Add), 1 => Just(COp::Flush), 1 => Just(COp::Check)], 0..=qlen))
                .prop_map(|(max, timeout_zero, ops)| Case::Collector { max, timeout_zero, ops }),
        ));
        v.push(Plan::new(
            "yield_helpers",
            q(4200, 80_000),
            0,
            (0u8..7, n_items(items.min(200)), 1u8..=16, 1u8..=8, fail_idx(3)).prop_map(|(op, n, interval, max_conc, fail_at)| Case::Helpers { op, n, interval, max_conc, fail_at }),
        ));
        v.push(Plan::new(
            "async_blob_store",
            q(1800, 40_000),
            0,
            (threads01(), n_items(64).prop_flat_map(|n| proptest::collection::vec(0u8..40, n as usize)), 0u8..12, 0u8..3).prop_map(|(threads, lens, batch, yields)| Case::BlobStore { threads, lens, batch, yields }),
        ));
        v
    }

    fn run(&self, case: &Value, ctx: &mut Ctx) {
        let c: Case = decode(case);
        match c {
            Case::Queue { cap, ops } => run_queue(ctx, cap.max(1), &ops),
            Case::Exec { workers, cap, threads, api, steps } => run_exec(ctx, workers, cap, threads, api, &steps),
            Case::PingPong { workers, rounds, pauses } => run_pingpong(ctx, workers, rounds, &pauses),
            Case::PoolSpawn { max_fibers, threads, batch, shutdown_first, reverse, tasks } => run_pool_spawn(ctx, max_fibers.max(1), threads, batch, shutdown_first, reverse, &tasks),
            Case::PoolMap { max_fibers, threads, for_each, n, fail_at } => run_pool_map(ctx, max_fibers.max(1), threads, for_each, n, &fail_at),
            Case::PoolReduce { max_fibers, max_workers, threads, n, fail_at } => run_pool_reduce(ctx, max_fibers.max(1), max_workers.max(1), threads, n, &fail_at),
            Case::GlobalPar { op, threads, n, yields, fail_at } => run_global_par(ctx, op, threads, n, yields, &fail_at),
            Case::PipeSingle { kind, two, x, fail1, fail2, hang } => run_pipe_single(ctx, kind, two, x, fail1, fail2, hang),
            Case::PipeBatch { kind, batching, n, yields, fail_at, hang_at } => run_pipe_batch(ctx, kind, batching, n, yields, &fail_at, &hang_at),
            Case::PipeStream { stages, buffer, in_cap, threads, n, yields, fail, hang } => run_pipe_stream(ctx, stages, buffer, in_cap, threads, n, yields, &fail, &hang),
            Case::Collector { max, timeout_zero, ops } => run_collector(ctx, max, timeout_zero, &ops),
            Case::Helpers { op, n, interval, max_conc, fail_at } => run_helpers(ctx, op, n, interval, max_conc, &fail_at),
            Case::BlobStore { threads, lens, batch, yields } => run_blob_store(ctx, threads, &lens, batch, yields),
        }
    }
}
