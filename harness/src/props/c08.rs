//! C08 — concurrent pool users never share a block and no block is lost.
//!
//! 2–3 threads run short allocate/free programs against one thread-safe pool under the
//! cooperative scheduler (hook H1): the interleaving is part of the generated case.  A global
//! shadow map of live blocks (keyed by owning thread) is checked at every allocation, the
//! per-block byte pattern at every free, and at quiescence the free structures are *drained*
//! (each freed block must come back at most once, never a live one) and the public counters
//! must add up.

use crate::engine::{decode, fnv, Ctx, Plan, Prop, Tier};
use crate::gen::idx;
use crate::sched::{self, Schedule};
use proptest::prelude::*;
use serde::{Deserialize, Serialize};
use serde_json::Value;
use std::sync::atomic::{AtomicBool, Ordering};
use std::sync::{Arc, Mutex};

pub struct P;

#[derive(Clone, Copy, Debug, Serialize, Deserialize, PartialEq, Eq, Hash)]
pub enum Op {
    Alloc,
    /// free the i-th block this thread owns
    Free(u16),
    /// give the i-th block to another thread (which frees or keeps it)
    HandOff(u16, u8),
}

#[derive(Clone, Debug, Serialize, Deserialize)]
pub enum Sch {
    Gen(Schedule),
    Exhaustive(u8),
    /// real OS threads, unscheduled: `reps` fresh pools, every thread runs its program `loops` times
    Free { reps: u16, loops: u16 },
}

#[derive(Clone, Debug, Serialize, Deserialize)]
pub struct Case {
    pool: u8,
    /// pool-specific knob (local cache size / size class selector)
    knob: u8,
    /// blocks allocated and freed again before the threads start (non-empty free structure)
    prefreed: u8,
    threads: Vec<Vec<Op>>,
    schedule: Sch,
}

const POOLS: &[&str] = &["secure", "lockfree", "lockfree5", "mutex5", "fixed", "basic"];

// ---------------------------------------------------------------------------------------
// uniform view of the pools
// ---------------------------------------------------------------------------------------

struct Block {
    /// address (pointer pools) or offset (five-level pools)
    addr: usize,
    size: usize,
    ptr: Option<usize>,
    /// RAII handle where the pool hands one out
    handle: Option<Box<dyn std::any::Any>>,
    pattern: u8,
}
// SAFETY: blocks are only ever touched by the one managed thread that is running
unsafe impl Send for Block {}

trait PoolUT: Send + Sync {
    fn alloc(&self) -> Result<Block, String>;
    fn free(&self, b: Block) -> Result<(), String>;
    /// (allocations, deallocations) as publicly reported, if the pool reports them
    fn counters(&self) -> Option<(u64, u64)>;
    /// does freeing return the block to a LIFO free structure from which a drain must see it again?
    fn recycles_exactly(&self) -> bool;
    /// anomalies the pool itself reports although the harness only performed legitimate operations
    /// (e.g. a "double free detected" counter that moved)
    fn anomalies(&self) -> Vec<String> {
        vec![]
    }
    /// allocate from the `sel`-th size class of the pool's table (pools with one class ignore it)
    fn alloc_sel(&self, _sel: usize) -> Result<Block, String> {
        self.alloc()
    }
    /// anomalies visible once every block has been returned (live-block counters must be 0)
    fn quiescent_anomalies(&self) -> Vec<String> {
        vec![]
    }
}

struct Secure(Arc<zipora::memory::SecureMemoryPool>);
impl PoolUT for Secure {
    fn alloc(&self) -> Result<Block, String> {
        let p = self.0.allocate().map_err(|e| e.to_string())?;
        Ok(Block { addr: p.as_ptr() as usize, size: p.size(), ptr: Some(p.as_ptr() as usize), handle: Some(Box::new(p)), pattern: 0 })
    }
    fn free(&self, b: Block) -> Result<(), String> {
        drop(b.handle);
        Ok(())
    }
    fn counters(&self) -> Option<(u64, u64)> {
        let s = self.0.stats();
        Some((s.alloc_count, s.dealloc_count))
    }
    fn recycles_exactly(&self) -> bool {
        false
    }
    fn anomalies(&self) -> Vec<String> {
        let s = self.0.stats();
        let mut v = vec![];
        if s.double_free_detected != 0 {
            v.push(format!("double_free_detected = {} although every block was released exactly once", s.double_free_detected));
        }
        if s.corruption_detected != 0 {
            v.push(format!("corruption_detected = {}", s.corruption_detected));
        }
        v
    }
}

struct LockFree(zipora::memory::lockfree_pool::LockFreeMemoryPool, usize);
const LOCKFREE_SIZES: [usize; 6] = [16, 64, 128, 512, 4096, 12_000];
impl PoolUT for LockFree {
    fn alloc(&self) -> Result<Block, String> {
        let p = self.0.allocate(self.1).map_err(|e| e.to_string())?;
        Ok(Block { addr: p.as_ptr() as usize, size: self.1, ptr: Some(p.as_ptr() as usize), handle: None, pattern: 0 })
    }
    fn alloc_sel(&self, sel: usize) -> Result<Block, String> {
        let size = if sel == usize::MAX - 1 { 12_000 } else { LOCKFREE_SIZES[sel % LOCKFREE_SIZES.len()] };
        let p = self.0.allocate(size).map_err(|e| e.to_string())?;
        Ok(Block { addr: p.as_ptr() as usize, size, ptr: Some(p.as_ptr() as usize), handle: None, pattern: 0 })
    }
    fn free(&self, b: Block) -> Result<(), String> {
        self.0.deallocate(std::ptr::NonNull::new(b.addr as *mut u8).unwrap(), b.size).map_err(|e| e.to_string())
    }
    fn counters(&self) -> Option<(u64, u64)> {
        None
    }
    fn recycles_exactly(&self) -> bool {
        true
    }
}

fn off(o: &zipora::memory::five_level_pool::MemOffset) -> usize {
    // MemOffset's field is private; its Debug form is `MemOffset(<n>)`
    let s = format!("{:?}", o);
    s.trim_start_matches("MemOffset(").trim_end_matches(')').parse().unwrap_or(usize::MAX)
}

struct LockFree5(zipora::memory::five_level_pool::LockFreePool, usize, Mutex<Vec<(usize, zipora::memory::five_level_pool::MemOffset)>>);
impl PoolUT for LockFree5 {
    fn alloc(&self) -> Result<Block, String> {
        let o = self.0.alloc(self.1).map_err(|e| e.to_string())?;
        let a = off(&o);
        self.2.lock().unwrap().push((a, o));
        Ok(Block { addr: a, size: self.1, ptr: None, handle: None, pattern: 0 })
    }
    fn free(&self, b: Block) -> Result<(), String> {
        let o = {
            let mut g = self.2.lock().unwrap();
            let p = g.iter().position(|x| x.0 == b.addr).ok_or("unknown offset")?;
            g.remove(p).1
        };
        self.0.free(o, b.size).map_err(|e| e.to_string())
    }
    fn counters(&self) -> Option<(u64, u64)> {
        None
    }
    fn recycles_exactly(&self) -> bool {
        true
    }
}

struct Mutex5(zipora::memory::five_level_pool::MutexBasedPool, usize, Mutex<Vec<(usize, zipora::memory::five_level_pool::MemOffset)>>);
impl PoolUT for Mutex5 {
    fn alloc(&self) -> Result<Block, String> {
        let o = self.0.alloc(self.1).map_err(|e| e.to_string())?;
        let a = off(&o);
        self.2.lock().unwrap().push((a, o));
        Ok(Block { addr: a, size: self.1, ptr: None, handle: None, pattern: 0 })
    }
    fn free(&self, b: Block) -> Result<(), String> {
        let o = {
            let mut g = self.2.lock().unwrap();
            let p = g.iter().position(|x| x.0 == b.addr).ok_or("unknown offset")?;
            g.remove(p).1
        };
        self.0.free(o, b.size).map_err(|e| e.to_string())
    }
    fn counters(&self) -> Option<(u64, u64)> {
        None
    }
    fn recycles_exactly(&self) -> bool {
        true
    }
}

struct Fixed(Arc<zipora::memory::fixed_capacity_pool::FixedCapacityMemoryPool>, usize);
const FIXED_SIZES: [usize; 3] = [16, 64, 200];
impl PoolUT for Fixed {
    fn alloc(&self) -> Result<Block, String> {
        let a = self.0.allocate(self.1).map_err(|e| e.to_string())?;
        Ok(Block { addr: a.as_ptr() as usize, size: a.size(), ptr: Some(a.as_ptr() as usize), handle: Some(Box::new(a)), pattern: 0 })
    }
    fn alloc_sel(&self, sel: usize) -> Result<Block, String> {
        let a = self.0.allocate(if sel == usize::MAX - 1 { 200 } else { FIXED_SIZES[sel % 3] }).map_err(|e| e.to_string())?;
        Ok(Block { addr: a.as_ptr() as usize, size: a.size(), ptr: Some(a.as_ptr() as usize), handle: Some(Box::new(a)), pattern: 0 })
    }
    fn quiescent_anomalies(&self) -> Vec<String> {
        match self.0.stats() {
            Some(s) => {
                let (a, d, live) = (s.allocations.load(Ordering::SeqCst), s.deallocations.load(Ordering::SeqCst), s.active_blocks.load(Ordering::SeqCst));
                if live != 0 || a != d {
                    vec![format!("every block was returned, yet active_blocks = {live} (allocations = {a}, deallocations = {d})")]
                } else {
                    vec![]
                }
            }
            None => vec![],
        }
    }
    fn free(&self, b: Block) -> Result<(), String> {
        drop(b.handle);
        Ok(())
    }
    fn counters(&self) -> Option<(u64, u64)> {
        self.0.stats().map(|s| (s.allocations.load(Ordering::SeqCst), s.deallocations.load(Ordering::SeqCst)))
    }
    fn recycles_exactly(&self) -> bool {
        true
    }
}

struct Basic(zipora::memory::MemoryPool, usize);
impl PoolUT for Basic {
    fn alloc(&self) -> Result<Block, String> {
        let p = self.0.allocate().map_err(|e| e.to_string())?;
        Ok(Block { addr: p.as_ptr() as usize, size: self.1, ptr: Some(p.as_ptr() as usize), handle: None, pattern: 0 })
    }
    fn free(&self, b: Block) -> Result<(), String> {
        self.0.deallocate(std::ptr::NonNull::new(b.addr as *mut u8).unwrap()).map_err(|e| e.to_string())
    }
    fn counters(&self) -> Option<(u64, u64)> {
        let s = self.0.stats();
        Some((s.alloc_count, s.dealloc_count))
    }
    fn recycles_exactly(&self) -> bool {
        false
    }
}

fn make_pool(pool: u8, knob: u8) -> Result<Arc<dyn PoolUT>, String> {
    make_pool_for(pool, knob, false)
}

/// `free_running`: also the two block sizes above the recycling bins (never reissued after a
/// free -- the known skip-list stub of C07 -- so the scheduled cells' drain check cannot use them)
fn make_pool_for(pool: u8, knob: u8, free_running: bool) -> Result<Arc<dyn PoolUT>, String> {
    use zipora::memory::five_level_pool::{FiveLevelPoolConfig, LockFreePool, MutexBasedPool};
    match POOLS[pool as usize % POOLS.len()] {
        "secure" => {
            let cfg = zipora::memory::SecurePoolConfig::new(64, 64, 8).with_local_cache_size(1 + (knob % 2) as usize);
            Ok(Arc::new(Secure(zipora::memory::SecureMemoryPool::new(cfg).map_err(|e| e.to_string())?)))
        }
        "lockfree" => {
            let mut cfg = zipora::memory::lockfree_pool::LockFreePoolConfig::compact();
            cfg.memory_size = 64 * 1024;
            // 4096 / 12000: a few blocks fill the 64 KiB pool, so refused requests are in flight
            let size = LOCKFREE_SIZES[knob as usize % if free_running { 6 } else { 4 }];
            Ok(Arc::new(LockFree(zipora::memory::lockfree_pool::LockFreeMemoryPool::new(cfg).map_err(|e| e.to_string())?, size)))
        }
        "lockfree5" => {
            let cfg = FiveLevelPoolConfig { initial_capacity: 64 * 1024, ..FiveLevelPoolConfig::default() };
            let size = [8usize, 64, 256][knob as usize % 3];
            Ok(Arc::new(LockFree5(LockFreePool::new(cfg).map_err(|e| e.to_string())?, size, Mutex::new(vec![]))))
        }
        "mutex5" => {
            let cfg = FiveLevelPoolConfig { initial_capacity: 64 * 1024, ..FiveLevelPoolConfig::default() };
            let size = [8usize, 64, 256][knob as usize % 3];
            Ok(Arc::new(Mutex5(MutexBasedPool::new(cfg).map_err(|e| e.to_string())?, size, Mutex::new(vec![]))))
        }
        "fixed" => {
            // knob bit 2: lazily allocated backing memory (the first allocations race for the initialisation)
            let cfg = zipora::memory::fixed_capacity_pool::FixedCapacityPoolConfig { max_block_size: 256, total_blocks: 32, eager_allocation: knob & 4 == 0, ..Default::default() };
            let size = [16usize, 64, 200][knob as usize % 3];
            Ok(Arc::new(Fixed(Arc::new(zipora::memory::fixed_capacity_pool::FixedCapacityMemoryPool::new(cfg).map_err(|e| e.to_string())?), size)))
        }
        _ => {
            let cfg = zipora::memory::PoolConfig::new(64, 8, 8);
            Ok(Arc::new(Basic(zipora::memory::MemoryPool::new(cfg).map_err(|e| e.to_string())?, 64)))
        }
    }
}

// ---------------------------------------------------------------------------------------
// one scheduled run
// ---------------------------------------------------------------------------------------

#[derive(Clone)]
struct LiveB {
    addr: usize,
    size: usize,
    owner: usize,
}

#[derive(Default)]
struct Shared {
    live: Mutex<Vec<LiveB>>,
    viol: Mutex<Vec<(String, String, String)>>,
    inbox: Mutex<Vec<Vec<Block>>>,
    poisoned: AtomicBool,
    allocs_ok: Mutex<u64>,
    frees_ok: Mutex<u64>,
    freed_addrs: Mutex<Vec<usize>>,
    next_pattern: Mutex<u8>,
}

impl Shared {
    fn v(&self, aspect: &str, class: &str, detail: String) {
        let mut g = self.viol.lock().unwrap();
        if !g.iter().any(|x| x.0 == aspect && x.1 == class) {
            g.push((aspect.into(), class.into(), detail));
        }
    }
}

fn do_alloc(pool: &dyn PoolUT, sh: &Shared, me: usize, whence: &str) -> Option<Block> {
    let mut b = pool.alloc().ok()?;
    *sh.allocs_ok.lock().unwrap() += 1;
    {
        let mut live = sh.live.lock().unwrap();
        if let Some(o) = live.iter().find(|l| b.addr < l.addr + l.size && l.addr < b.addr + b.size) {
            sh.v(
                "ownership",
                "block_shared",
                format!("{whence}: thread {me} was handed [{:#x},+{}) which overlaps the live block [{:#x},+{}) owned by thread {}", b.addr, b.size, o.addr, o.size, o.owner),
            );
            sh.poisoned.store(true, Ordering::SeqCst);
        }
        live.push(LiveB { addr: b.addr, size: b.size, owner: me });
    }
    sh.freed_addrs.lock().unwrap().retain(|a| *a != b.addr);
    let pat = {
        let mut p = sh.next_pattern.lock().unwrap();
        *p = p.wrapping_add(1).max(1);
        *p
    };
    b.pattern = pat;
    if let Some(p) = b.ptr {
        if !sh.poisoned.load(Ordering::SeqCst) {
            unsafe { std::ptr::write_bytes(p as *mut u8, pat, b.size) };
        }
    }
    Some(b)
}

fn check_pattern(sh: &Shared, b: &Block, whence: &str) {
    if let Some(p) = b.ptr {
        let s = unsafe { std::slice::from_raw_parts(p as *const u8, b.size) };
        if let Some(i) = s.iter().position(|x| *x != b.pattern) {
            sh.v("contents", "pattern_lost", format!("{whence}: live block [{:#x},+{}) byte {i} is {:#04x}, expected {:#04x}", b.addr, b.size, s[i], b.pattern));
        }
    }
}

fn do_free(pool: &dyn PoolUT, sh: &Shared, b: Block, whence: &str) {
    check_pattern(sh, &b, whence);
    {
        let mut live = sh.live.lock().unwrap();
        if let Some(p) = live.iter().position(|l| l.addr == b.addr) {
            live.remove(p);
        }
    }
    let addr = b.addr;
    if sh.poisoned.load(Ordering::SeqCst) {
        // after a detected double hand-out, freeing would corrupt the worker's heap: leak instead
        std::mem::forget(b);
        return;
    }
    match pool.free(b) {
        Ok(()) => {
            *sh.frees_ok.lock().unwrap() += 1;
            sh.freed_addrs.lock().unwrap().push(addr);
        }
        Err(e) => sh.v("free", "refused_valid_block", format!("{whence}: free of a live block failed: {e}")),
    }
}

fn thread_body(pool: Arc<dyn PoolUT>, sh: Arc<Shared>, me: usize, ops: Vec<Op>, nthreads: usize) {
    thread_body_n(pool, sh, me, ops, nthreads, 1)
}

fn thread_body_n(pool: Arc<dyn PoolUT>, sh: Arc<Shared>, me: usize, ops: Vec<Op>, nthreads: usize, loops: usize) {
    let mut mine: Vec<Block> = vec![];
    let ops: Vec<Op> = (0..loops).flat_map(|_| ops.iter().copied()).collect();
    for op in ops {
        sched::op_boundary();
        if sh.poisoned.load(Ordering::SeqCst) {
            break;
        }
        // adopt blocks handed to this thread
        {
            let mut inbox = sh.inbox.lock().unwrap();
            for b in inbox[me].drain(..) {
                let mut live = sh.live.lock().unwrap();
                if let Some(l) = live.iter_mut().find(|l| l.addr == b.addr) {
                    l.owner = me;
                }
                mine.push(b);
            }
        }
        match op {
            Op::Alloc => {
                if let Some(b) = do_alloc(&*pool, &sh, me, "alloc") {
                    mine.push(b);
                }
            }
            Op::Free(i) => {
                if !mine.is_empty() {
                    let b = mine.remove(idx(i, mine.len()));
                    do_free(&*pool, &sh, b, "free");
                }
            }
            Op::HandOff(i, t) => {
                let t = t as usize % nthreads;
                if !mine.is_empty() && t != me {
                    let b = mine.remove(idx(i, mine.len()));
                    sh.inbox.lock().unwrap()[t].push(b);
                }
            }
        }
    }
    sched::op_boundary();
    // epilogue: everything this thread still owns goes back to the pool
    for b in mine.drain(..) {
        do_free(&*pool, &sh, b, "epilogue");
    }
}

/// Ownership claims for the free-running cells: one small lock per address bucket, so that the
/// harness' own bookkeeping does not serialise the threads (a global table would leave hardly any
/// time in which two threads are inside the pool at once).
struct Claims(Vec<Mutex<Vec<(usize, usize)>>>);
impl Claims {
    fn new() -> Self {
        Claims((0..256).map(|_| Mutex::new(vec![])).collect())
    }
    fn bucket(&self, addr: usize) -> &Mutex<Vec<(usize, usize)>> {
        &self.0[(addr >> 3).wrapping_mul(0x9E37_79B9) >> 7 & 255]
    }
    /// returns the current owner if the block is already claimed
    fn claim(&self, addr: usize, me: usize) -> Option<usize> {
        let mut g = self.bucket(addr).lock().unwrap();
        if let Some(e) = g.iter().find(|e| e.0 == addr) {
            return Some(e.1);
        }
        g.push((addr, me));
        None
    }
    fn release(&self, addr: usize) {
        let mut g = self.bucket(addr).lock().unwrap();
        if let Some(p) = g.iter().position(|e| e.0 == addr) {
            g.swap_remove(p);
        }
    }
}

/// Thread body of the free-running cells: same operations, ownership through `Claims`
/// (claimed after the pool handed the block out, released before it goes back: the claimed
/// interval lies inside the owned interval, so two claims on one address are two owners).
/// Exhaustion under contention (knob bit 4): threads 0 and 1 keep asking for the pool's largest
/// block (refused once the pool is nearly full, given back at once when granted) while the
/// others take small blocks and keep them until their first refusal.  Refused and granted
/// requests interleave for as long as the large request no longer fits but small ones do.
fn thread_body_exhaust(pool: Arc<dyn PoolUT>, sh: Arc<Shared>, claims: Arc<Claims>, me: usize, stop: Arc<AtomicBool>) {
    let mut mine: Vec<Block> = vec![];
    let take = |sel: usize, mine: &mut Vec<Block>| -> bool {
        let Ok(b) = pool.alloc_sel(sel) else { return false };
        if let Some(owner) = claims.claim(b.addr, me) {
            sh.v("ownership", "block_shared", format!("thread {me} was handed block {:#x} (+{}) while thread {owner} still owns it (pool close to exhaustion, refused requests in flight)", b.addr, b.size));
            sh.poisoned.store(true, Ordering::SeqCst);
            std::mem::forget(b);
            return false;
        }
        mine.push(b);
        true
    };
    if me < 2 {
        // hog: the largest size class, returned immediately
        let mut n = 0u32;
        while !stop.load(Ordering::Relaxed) && !sh.poisoned.load(Ordering::Relaxed) && n < 400_000 {
            n += 1;
            if take(usize::MAX - 1, &mut mine) {
                let b = mine.pop().unwrap();
                claims.release(b.addr);
                let _ = pool.free(b);
            }
        }
    } else {
        let mut k = me;
        while mine.len() < 4000 && !sh.poisoned.load(Ordering::Relaxed) {
            k += 1;
            if !take(k % 3, &mut mine) {
                break;
            }
        }
        stop.store(true, Ordering::SeqCst);
    }
    if sh.poisoned.load(Ordering::SeqCst) {
        for b in mine.drain(..) {
            std::mem::forget(b);
        }
    } else {
        for b in mine.drain(..) {
            claims.release(b.addr);
            let _ = pool.free(b);
        }
    }
}

fn thread_body_fast(pool: Arc<dyn PoolUT>, sh: Arc<Shared>, claims: Arc<Claims>, me: usize, ops: Vec<Op>, loops: usize, mixed: bool) {
    let mut mine: Vec<Block> = vec![];
    let mut nth = me;
    let mut pat = (me as u8).wrapping_mul(37) | 1;
    let give_back = |b: Block, whence: &str| {
        check_pattern(&sh, &b, whence);
        claims.release(b.addr);
        if let Err(e) = pool.free(b) {
            sh.v("free", "refused_valid_block", format!("{whence}: free of a live block failed: {e}"));
        }
    };
    'outer: for _ in 0..loops {
        for op in &ops {
            if sh.poisoned.load(Ordering::Relaxed) {
                break 'outer;
            }
            match op {
                Op::Alloc => {
                    if mine.len() >= 24 {
                        continue; // keep the working set small: the pool must not run dry
                    }
                    nth += 1;
                    // mixed: the size class changes from one request to the next
                    let Ok(mut b) = (if mixed { pool.alloc_sel(nth) } else { pool.alloc() }) else { continue };
                    if let Some(owner) = claims.claim(b.addr, me) {
                        sh.v("ownership", "block_shared", format!("thread {me} was handed block {:#x} (+{}) while thread {owner} still owns it", b.addr, b.size));
                        sh.poisoned.store(true, Ordering::SeqCst);
                        std::mem::forget(b);
                        break 'outer;
                    }
                    pat = pat.wrapping_add(2) | 1;
                    b.pattern = pat;
                    if let Some(p) = b.ptr {
                        unsafe { std::ptr::write_bytes(p as *mut u8, pat, b.size) };
                    }
                    mine.push(b);
                }
                Op::Free(i) | Op::HandOff(i, _) => {
                    if !mine.is_empty() {
                        let b = mine.remove(idx(*i, mine.len()));
                        give_back(b, "free");
                    }
                }
            }
        }
    }
    if sh.poisoned.load(Ordering::SeqCst) {
        for b in mine.drain(..) {
            std::mem::forget(b);
        }
    } else {
        for b in mine.drain(..) {
            give_back(b, "epilogue");
        }
    }
}

/// One free-running run: fresh pool, all threads released together, no schedule.
fn run_once_free(c: &Case, loops: usize) -> Result<Vec<(String, String, String)>, String> {
    let pool = make_pool_for(c.pool, c.knob, true)?;
    let sh = Arc::new(Shared::default());
    let claims = Arc::new(Claims::new());
    // knob bit 3: requests cycle through the pool's size classes (pools with a size table)
    let mixed = c.knob & 8 != 0;
    let mut pre = vec![];
    for _ in 0..(c.prefreed % 4) {
        if let Ok(b) = pool.alloc() {
            pre.push(b);
        }
    }
    for b in pre {
        let _ = pool.free(b);
    }
    let exhaust = c.knob & 16 != 0 && c.threads.len() >= 3;
    let stop = Arc::new(AtomicBool::new(false));
    let progs: Vec<Box<dyn FnOnce() + Send>> = c
        .threads
        .iter()
        .enumerate()
        .map(|(i, ops)| {
            let (p, s, cl, ops, st) = (pool.clone(), sh.clone(), claims.clone(), ops.clone(), stop.clone());
            if exhaust {
                Box::new(move || thread_body_exhaust(p, s, cl, i, st)) as Box<dyn FnOnce() + Send>
            } else {
                Box::new(move || thread_body_fast(p, s, cl, i, ops, loops, mixed)) as Box<dyn FnOnce() + Send>
            }
        })
        .collect();
    sched::run_free(progs);
    if !sh.poisoned.load(Ordering::SeqCst) {
        for a in pool.anomalies() {
            sh.v("counters", "pool_reported_anomaly", a);
        }
        if let Some((ra, rf)) = pool.counters() {
            if rf > ra {
                sh.v("counters", "do_not_add_up", format!("pool reports allocations={ra} < deallocations={rf}"));
            }
        }
        for a in pool.quiescent_anomalies() {
            sh.v("counters", "not_balanced_at_quiescence", a);
        }
    } else {
        std::mem::forget(pool);
    }
    let v = sh.viol.lock().unwrap().clone();
    Ok(v)
}

struct OneRun {
    res: sched::RunResult,
    viol: Vec<(String, String, String)>,
}

fn run_once(c: &Case, schedule: Schedule) -> Result<OneRun, String> {
    run_once_with(c, Some(schedule), 1)
}

/// `schedule == None`: free-running OS threads (`loops` passes over each program)
fn run_once_with(c: &Case, schedule: Option<Schedule>, loops: usize) -> Result<OneRun, String> {
    let pool = make_pool(c.pool, c.knob)?;
    let sh = Arc::new(Shared::default());
    *sh.inbox.lock().unwrap() = (0..c.threads.len()).map(|_| vec![]).collect();
    // pre-state: k blocks allocated then freed so the free structure is non-empty
    let mut pre = vec![];
    for _ in 0..(c.prefreed % 4) {
        if let Some(b) = do_alloc(&*pool, &sh, 99, "prestate") {
            pre.push(b);
        }
    }
    for b in pre {
        do_free(&*pool, &sh, b, "prestate");
    }
    let n = c.threads.len();
    let progs: Vec<Box<dyn FnOnce() + Send>> = c
        .threads
        .iter()
        .enumerate()
        .map(|(i, ops)| {
            let (p, s, ops) = (pool.clone(), sh.clone(), ops.clone());
            Box::new(move || thread_body_n(p, s, i, ops, n, loops)) as Box<dyn FnOnce() + Send>
        })
        .collect();
    let res = match schedule {
        Some(schedule) => sched::run(progs, schedule, None, 6000),
        None => {
            sched::run_free(progs);
            sched::RunResult::default()
        }
    };
    if !res.aborted && !sh.poisoned.load(Ordering::SeqCst) {
        // blocks stranded in inboxes (handed to a thread that had already finished)
        let stranded: Vec<Block> = sh.inbox.lock().unwrap().iter_mut().flat_map(|v| v.drain(..)).collect();
        for b in stranded {
            do_free(&*pool, &sh, b, "stranded");
        }
        // counters add up
        let (a, f) = (*sh.allocs_ok.lock().unwrap(), *sh.frees_ok.lock().unwrap());
        if let Some((ra, rf)) = pool.counters() {
            if ra < a || rf != f {
                // alloc_count also counts refused requests in some pools, hence `<`
                sh.v("counters", "do_not_add_up", format!("pool reports allocations={ra} deallocations={rf}; harness saw {a} successful allocations and {f} successful frees"));
            }
        }
        for a in pool.anomalies() {
            sh.v("counters", "pool_reported_anomaly", a);
        }
        // drain: every block comes back at most once, none overlaps another
        let freed: Vec<usize> = sh.freed_addrs.lock().unwrap().clone();
        let want = freed.len() + 2;
        let mut got: Vec<Block> = vec![];
        for _ in 0..want {
            match do_alloc(&*pool, &sh, 98, "drain") {
                Some(b) => got.push(b),
                None => break,
            }
            if sh.poisoned.load(Ordering::SeqCst) {
                break;
            }
        }
        if pool.recycles_exactly() && !sh.poisoned.load(Ordering::SeqCst) && got.len() == want {
            for a in &freed {
                if !got.iter().any(|b| b.addr == *a) {
                    sh.v("lost", "freed_block_never_reissued", format!("block {:#x} was freed but a drain of {} allocations never returned it", a, want));
                }
            }
        }
        if !sh.poisoned.load(Ordering::SeqCst) {
            for b in got {
                do_free(&*pool, &sh, b, "drain");
            }
            for a in pool.quiescent_anomalies() {
                sh.v("counters", "not_balanced_at_quiescence", a);
            }
        } else {
            for b in got {
                std::mem::forget(b);
            }
        }
    }
    let viol = sh.viol.lock().unwrap().clone();
    if sh.poisoned.load(Ordering::SeqCst) {
        // leak the pool as well: its free structures are corrupt
        std::mem::forget(pool);
    }
    Ok(OneRun { res, viol })
}

fn key(c: &Case, r: &sched::RunResult) -> u64 {
    fnv(format!("{}|{}|{}|{:?}|{:?}", c.pool, c.knob, c.prefreed, c.threads, r.switches).as_bytes())
}

/// a preemption between a head load and its CAS while another thread runs: switch taken at a
/// site inside the pool (not an op boundary)
fn nontrivial(r: &sched::RunResult) -> bool {
    r.switches.iter().any(|s| s.site != sched::SITE_OP)
}

// ---------------------------------------------------------------------------------------

fn op() -> BoxedStrategy<Op> {
    prop_oneof![5 => Just(Op::Alloc), 4 => any::<u16>().prop_map(Op::Free), 1 => (any::<u16>(), 0u8..3).prop_map(|(i, t)| Op::HandOff(i, t))].boxed()
}

fn sched_bytes() -> BoxedStrategy<Schedule> {
    proptest::collection::vec(prop_oneof![5 => Just(0u8), 2 => 160u8..=255], 0..64).prop_map(Schedule::Bytes).boxed()
}

const ENUM_PROGRAMS: &[&[&[Op]]] = &[
    &[&[Op::Alloc, Op::Free(0)], &[Op::Alloc, Op::Free(0)]],
    &[&[Op::Alloc, Op::Alloc, Op::Free(0)], &[Op::Alloc, Op::Free(0), Op::Alloc]],
    &[&[Op::Alloc, Op::Free(0), Op::Alloc], &[Op::Alloc, Op::Alloc, Op::Free(0)]],
    // ABA shape: T0 pops slowly while T1 pops two and pushes the first one back
    &[&[Op::Alloc], &[Op::Alloc, Op::Alloc, Op::Free(0)], &[Op::Alloc]],
];

impl Prop for P {
    fn id(&self) -> &'static str {
        "C08"
    }
    fn rule(&self) -> &'static str {
        "2-3 threads x 1-6 ops (alloc / free own block / hand a block to another thread) against one pool (secure, lock-free, five-level lock-free, five-level mutex, fixed-capacity, basic) with 0-3 pre-freed blocks, interleaved by a generated schedule consumed at the cfg(zipora_verif) yield points around every free-list head load / next read / CAS (random byte schedules + bounded-exhaustive <=2 forced switches for fixed programs). Oracle: global shadow map (no two live blocks overlap, pattern intact at free), drain at quiescence (each freed block reissued at most once, never a live one, none lost for LIFO pools), public counters add up. plus <pool>_free cells: the same programs looped 1500x on 2-6 real unscheduled OS threads (working set <= 24 blocks per thread), 2 fresh pools per case, ownership through a bucketed claim table; with knob bit 4 and >= 3 threads instead: two threads keep requesting the largest block while the others fill the pool with small ones (refused and granted requests interleave), 32 fresh pools per case (race windows that contain no yield point; non-trivial = >= 2 allocating threads). Non-trivial = a context switch taken at a yield point inside a pool operation; distinct by hash of (pool, programs, effective switch sequence)."
    }
    fn assumptions(&self) -> Vec<String> {
        vec![
            "scheduled cells: only sequentially consistent interleavings, pre-emption only at the instrumented points (hook H1); *_free cells: whatever the host's scheduler and 16 cores produce (not reproducible step by step; the oracle is the same and cannot raise a false alarm, a detection is confirmed by re-running the case)".into(),
            "scheduled cells: one size class per case (mixed size classes are property C07); *_free cells cycle through the pool's size classes when knob bit 3 is set".into(),
            "after a detected double hand-out the run leaks its blocks instead of freeing them (the worker's heap must stay usable)".into(),
        ]
    }
    fn cpu_budget_s(&self) -> u64 {
        120
    }
    fn plans(&self, tier: Tier) -> Vec<Plan> {
        let mut v = vec![];
        for (pi, name) in POOLS.iter().enumerate() {
            let heavy = matches!(*name, "secure" | "lockfree" | "lockfree5" | "fixed");
            let n = if heavy { tier.pick(8000, 200_000) } else { tier.pick(2000, 40_000) };
            let nb = if heavy { tier.pick(800, 20_000) } else { tier.pick(200, 4000) };
            let pi = pi as u8;
            v.push(Plan::new(
                name,
                n,
                nb,
                (any::<u8>(), 0u8..4, proptest::collection::vec(proptest::collection::vec(op(), 1..=6), 2..=3), sched_bytes())
                    .prop_map(move |(knob, prefreed, threads, s)| Case { pool: pi, knob, prefreed, threads, schedule: Sch::Gen(s) }),
            ));
            // the same programs on 2-6 real, unscheduled OS threads (race windows without a yield point)
            v.push(Plan::new(
                &format!("{name}_free"),
                tier.pick(300, 6000),
                tier.pick(10, 300),
                (any::<u8>(), 0u8..4, proptest::collection::vec(proptest::collection::vec(op(), 2..=6), 2..=6))
                    .prop_map(move |(knob, prefreed, threads)| Case { pool: pi, knob, prefreed, threads, schedule: Sch::Free { reps: 2, loops: 1500 } }),
            ));
        }
        v
    }
    fn enumerated(&self, tier: Tier) -> Vec<Value> {
        let mut out = vec![];
        for (pi, name) in POOLS.iter().enumerate() {
            if matches!(*name, "mutex5" | "basic") {
                continue;
            }
            for (k, progs) in ENUM_PROGRAMS.iter().enumerate() {
                for prefreed in [0u8, 2] {
                    if tier == Tier::Quick && k >= 2 && prefreed == 0 {
                        continue;
                    }
                    let c = Case { pool: pi as u8, knob: 0, prefreed, threads: progs.iter().map(|p| p.to_vec()).collect(), schedule: Sch::Exhaustive(2) };
                    out.push(serde_json::json!({"cell": format!("{name}_exhaustive"), "c": serde_json::to_value(&c).unwrap()}));
                }
            }
        }
        out
    }
    fn run(&self, case: &Value, ctx: &mut Ctx) {
        let c: Case = decode(case);
        ctx.label(format!("threads_{}", c.threads.len()));
        match c.schedule.clone() {
            Sch::Gen(s) => match run_once(&c, s) {
                Ok(one) => {
                    if one.res.aborted {
                        ctx.skip("scheduler step limit");
                        return;
                    }
                    ctx.out.checks += one.res.trace.len() as u64;
                    ctx.out.key = Some(key(&c, &one.res));
                    if nontrivial(&one.res) {
                        ctx.nontrivial();
                    }
                    ctx.label(format!("switches_{}", one.res.switches.len().min(6)));
                    for (a, cl, d) in one.viol {
                        ctx.fail(&a, "mismatch", &cl, d);
                    }
                }
                Err(e) => ctx.skip(format!("pool construction refused: {e}")),
            },
            Sch::Free { reps, loops } => {
                ctx.label("free_running_os_threads");
                ctx.out.key = Some(fnv(format!("free|{}|{}|{}|{:?}", c.pool, c.knob, c.prefreed, c.threads).as_bytes()));
                let mut allocating = 0;
                for t in &c.threads {
                    if t.iter().any(|o| matches!(o, Op::Alloc)) {
                        allocating += 1;
                    }
                }
                if allocating >= 2 {
                    ctx.nontrivial();
                }
                let reps = if c.knob & 16 != 0 && c.threads.len() >= 3 { reps * 16 } else { reps };
                if c.knob & 16 != 0 && c.threads.len() >= 3 {
                    ctx.label("free_running_exhaustion_under_contention");
                }
                for _ in 0..reps {
                    match run_once_free(&c, loops as usize) {
                        Ok(viol) => {
                            ctx.out.extra_evals += 1;
                            ctx.out.checks += (loops as u64) * c.threads.iter().map(|t| t.len() as u64).sum::<u64>();
                            if !viol.is_empty() {
                                for (a, cl, d) in viol {
                                    ctx.fail(&a, "mismatch", &cl, format!("unscheduled OS threads: {d}"));
                                }
                                break;
                            }
                        }
                        Err(e) => {
                            ctx.skip(format!("pool construction refused: {e}"));
                            return;
                        }
                    }
                }
            }
            Sch::Exhaustive(k) => {
                let Ok(dry) = run_once(&c, Schedule::Forced(vec![])) else {
                    ctx.skip("pool construction refused");
                    return;
                };
                let all = sched::enumerate_forced(dry.res.trace.len(), c.threads.len(), k as usize, if ctx.tier == Tier::Quick { 3000 } else { 300_000 });
                ctx.label(format!("exhaustive_k{k}"));
                let mut keys = std::collections::HashSet::new();
                for s in all {
                    let sdesc = format!("{:?}", s);
                    let Ok(one) = run_once(&c, s) else { continue };
                    ctx.out.extra_evals += 1;
                    ctx.out.checks += one.res.trace.len() as u64;
                    if nontrivial(&one.res) {
                        ctx.nontrivial();
                        if keys.len() < 20_000 {
                            keys.insert(key(&c, &one.res));
                        }
                    }
                    for (a, cl, d) in one.viol {
                        ctx.fail(&a, "mismatch", &cl, format!("schedule {sdesc}: {d}"));
                    }
                }
                ctx.out.extra_keys = keys.into_iter().collect();
            }
        }
    }
}
