//! C20 — string views, orderings and iterators agree with byte-wise semantics.
//!
//! Oracles (all written here, none calls the implementation): naive unsigned-byte loops for
//! FastStr; an arbitrary-precision canonicalising comparison for the numeric comparators plus
//! reference-free laws (reflexive, antisymmetric, transitive on triples, rejection of invalid
//! text); `sorted(input)` / lower-bound / upper-bound models for the lexicographic iterators and
//! the two sorted string vectors; naive concatenation for join; the documented `[a-zA-Z0-9_]`
//! rule for words; `\n` / `\r\n` terminated lines for the line processor; byte-wise ASCII maps
//! for case conversion.

use crate::engine::{decode, Ctx, Plan, Prop, Tier};
use crate::gen::{idx, Bytes, Xs};
use proptest::prelude::*;
use serde::{Deserialize, Serialize};
use serde_json::Value;
use std::cmp::Ordering;
use std::io::Read;
use zipora::containers::{SortableStrVec, ZoSortedStrVec};
use zipora::string::{
    decimal_strcmp, decimal_strcmp_with_sign, realnum_strcmp, realnum_strcmp_with_sign, FastStr, LexIteratorBuilder,
    LexicographicIterator, LineProcessor, LineProcessorConfig, LineSplitter, SortedVecLexIterator, StreamingLexIterator,
};

pub struct P;

#[derive(Clone, Debug, Serialize, Deserialize)]
pub enum LexOp {
    Next,
    Prev,
    SeekStart,
    SeekEnd,
    Lower(Probe),
    Upper(Probe),
}

/// A probe string derived from the list at run time (so that hits are frequent) or fresh.
#[derive(Clone, Debug, Serialize, Deserialize)]
pub struct Probe {
    pub k: u16,
    pub suffix: String,
    pub trunc: bool,
    pub fresh: Option<String>,
}

#[derive(Clone, Debug, Serialize, Deserialize)]
pub enum StrList {
    Plain(Vec<String>),
    /// `n` pseudo-random short strings over a tiny alphabet (many duplicates / shared prefixes)
    Many { n: u16, seed: u64, alpha: u8, maxlen: u8 },
    /// `copies` identical strings of `len` bytes plus one different string
    DupLong { copies: u8, len: u32 },
    /// one string of `len` bytes (around the 2^20 packed-length limit) plus others
    Huge { len: u32, others: Vec<String> },
}

impl StrList {
    fn materialise(&self) -> Vec<String> {
        match self {
            StrList::Plain(v) => v.clone(),
            StrList::Many { n, seed, alpha, maxlen } => {
                let mut r = Xs(*seed | 1);
                let alpha = (*alpha).clamp(1, 6) as u64;
                (0..*n)
                    .map(|_| {
                        let l = r.below(*maxlen as u64 + 1) as usize;
                        (0..l)
                            .map(|_| match r.below(alpha) {
                                0 => 'a',
                                1 => 'b',
                                2 => 'z',
                                3 => 'é',
                                4 => '0',
                                _ => '\u{7f}',
                            })
                            .collect::<String>()
                    })
                    .collect()
            }
            StrList::DupLong { copies, len } => {
                let mut v = vec!["a".repeat(*len as usize); *copies as usize];
                v.push("b".to_string());
                v
            }
            StrList::Huge { len, others } => {
                let mut v = others.clone();
                v.insert(v.len() / 2, "x".repeat(*len as usize));
                v
            }
        }
    }
    fn shape(&self) -> &'static str {
        match self {
            StrList::Plain(_) => "plain",
            StrList::Many { .. } => "many",
            StrList::DupLong { .. } => "dup_long",
            StrList::Huge { .. } => "huge",
        }
    }
}

#[derive(Clone, Debug, Serialize, Deserialize)]
pub struct LineSpec {
    pub text: String,
    pub rep: u16,
    pub crlf: bool,
}

#[derive(Clone, Debug, Serialize, Deserialize)]
pub enum Case {
    Fast { a: Bytes, b: Bytes, pad_a: u8, pad_b: u8, i: u16, j: u16, byte: u8, nmode: u8 },
    Num { real: bool, a: String, b: String, c: String, bad: Vec<String> },
    LexVec { list: Vec<String>, ops: Vec<LexOp>, probes: Vec<Probe> },
    LexStream { list: Vec<String>, crlf: Vec<bool>, final_nl: bool, chunks: Vec<u8>, via_builder: bool },
    Sortable { list: StrList, sort: u8, probes: Vec<Probe>, extra: Option<String> },
    Zo { list: StrList, ctor: u8, probes: Vec<Probe>, ranges: Vec<(Probe, Probe)> },
    Join { parts: Vec<String>, sep: String, bparts: Vec<Bytes>, bsep: Bytes, pool: Vec<u8> },
    Words { text: Bytes },
    Lines { preset: u8, lines: Vec<LineSpec>, final_nl: bool, chunks: Vec<u8>, batch: u8, delim: String, stop_after: Option<u8> },
    Splitter { strategy: u8, lines: Vec<String>, delim: String },
    CaseConv { s: String },
    Unicode { b: Bytes },
}

// ---------------------------------------------------------------------------------------
// generators
// ---------------------------------------------------------------------------------------

fn byte_string(max: usize) -> BoxedStrategy<Vec<u8>> {
    let len = prop_oneof![4 => 0usize..=80, 2 => 0usize..=12, 1 => 60usize..=max.max(61)];
    prop_oneof![
        3 => len.clone().prop_flat_map(|n| proptest::collection::vec(any::<u8>(), n)),
        3 => len.clone().prop_flat_map(|n| proptest::collection::vec(
            prop_oneof![Just(0u8), Just(1u8), Just(0x7f), Just(0x80), Just(0xff), Just(b'a'), Just(b'b'), Just(b',')], n)),
        2 => len.clone().prop_flat_map(|n| proptest::collection::vec(prop_oneof![Just(b'a'), Just(b'b')], n)),
        2 => len.prop_flat_map(|n| proptest::collection::vec(0x20u8..0x7f, n)),
    ]
    .boxed()
}

fn fast_case(max: usize) -> BoxedStrategy<Case> {
    // b is related to a: equal copy / long common prefix then a differing byte / prefix / extension / independent
    let pair = (byte_string(max), byte_string(max), 0u8..6, any::<u16>(), any::<u8>()).prop_map(|(a, other, rel, pos, nb)| {
        let b = match rel {
            0 => a.clone(),
            1 | 2 => {
                // change one byte (biased to high bytes) at a position, keep the rest
                let mut b = a.clone();
                if !b.is_empty() {
                    let p = idx(pos, b.len());
                    let newb = if rel == 1 { nb | 0x80 } else { nb };
                    b[p] = if b[p] == newb { newb.wrapping_add(1) } else { newb };
                    if nb & 1 == 1 {
                        b.truncate(p + 1 + (nb as usize >> 5));
                    }
                }
                b
            }
            3 => a[..idx(pos, a.len() + 1)].to_vec(),
            4 => {
                let mut b = a.clone();
                b.extend_from_slice(&other[..other.len().min(9)]);
                b
            }
            _ => other,
        };
        (a, b)
    });
    (pair, 0u8..17, 0u8..17, any::<u16>(), any::<u16>(), prop_oneof![any::<u8>(), Just(0u8), Just(0x80u8), Just(b','), Just(b'a')], 0u8..6)
        .prop_map(|((a, b), pad_a, pad_b, i, j, byte, nmode)| Case::Fast { a: Bytes(a), b: Bytes(b), pad_a, pad_b, i, j, byte, nmode })
        .boxed()
}

fn digit_string() -> BoxedStrategy<String> {
    prop_oneof![
        4 => "[0-9]{0,4}",
        2 => "[1-9][0-9]{0,11}",
        2 => "[09]{0,6}",
        // 13..19 digits: around the 15.95 digits an f64 holds exactly and the u64 range
        2 => "[1-9][0-9]{12,18}",
        1 => "[0-9]{18,24}",
        1 => "[1-9][0-9]{36,45}",
        1 => Just(String::new()),
        1 => Just("0".to_string()),
    ]
    .boxed()
}

/// How one spelling is derived from the base digits.
#[derive(Clone, Debug)]
struct Spell {
    sign: u8,
    lead: u8,
    trail: u8,
    dot: bool,
    mutate: u8,
    pos: u16,
    digit: u8,
    allow_bare: bool,
}

fn spell() -> BoxedStrategy<Spell> {
    (
        prop_oneof![3 => Just(0u8), 1 => Just(1u8), 3 => Just(2u8)],
        prop_oneof![4 => Just(0u8), 2 => 1u8..4],
        prop_oneof![4 => Just(0u8), 2 => 1u8..4],
        any::<bool>(),
        prop_oneof![4 => Just(0u8), 4 => 1u8..9],
        any::<u16>(),
        0u8..10,
        prop_oneof![5 => Just(false), 1 => Just(true)],
    )
        .prop_map(|(sign, lead, trail, dot, mutate, pos, digit, allow_bare)| Spell { sign, lead, trail, dot, mutate, pos, digit, allow_bare })
        .boxed()
}

fn spell_out(int: &str, frac: &str, s: &Spell, real: bool) -> String {
    let mut int: Vec<u8> = int.bytes().collect();
    let mut frac: Vec<u8> = frac.bytes().collect();
    let d = b'0' + s.digit;
    match s.mutate {
        1 => {
            if !int.is_empty() {
                let p = idx(s.pos, int.len());
                int[p] = d;
            }
        }
        2 => {
            if !frac.is_empty() {
                let p = idx(s.pos, frac.len());
                frac[p] = d;
            }
        }
        3 => frac.push(d),
        4 => int.push(d),
        5 => {
            int.pop();
        }
        6 => {
            frac.pop();
        }
        7 => {
            int = vec![b'0'; int.len().min(2)];
            frac = vec![b'0'; frac.len().min(2)];
        }
        8 => int.insert(0, d),
        _ => {}
    }
    let mut out = String::new();
    match s.sign {
        1 => out.push('+'),
        2 => out.push('-'),
        _ => {}
    }
    let mut ip = "0".repeat(s.lead as usize);
    ip.push_str(std::str::from_utf8(&int).unwrap());
    if !real {
        if ip.is_empty() {
            ip.push('0');
        }
        out.push_str(&ip);
        return out;
    }
    let mut fp = String::from_utf8(frac).unwrap();
    let dot = s.dot || !fp.is_empty();
    if dot {
        fp.push_str(&"0".repeat(s.trail as usize));
    }
    if ip.is_empty() && (!s.allow_bare || fp.is_empty()) {
        ip.push('0');
    }
    out.push_str(&ip);
    if dot && (!fp.is_empty() || s.allow_bare) {
        out.push('.');
        out.push_str(&fp);
    }
    out
}

fn bad_numeric() -> BoxedStrategy<String> {
    prop_oneof![
        Just(String::new()),
        Just("+".to_string()),
        Just("-".to_string()),
        "[0-9]{0,3}[a-zA-Z ,_eE][0-9]{0,3}",
        "[0-9]{1,3}\\.[0-9]{0,2}\\.[0-9]{0,2}",
        "[0-9]{1,3}\\.[0-9]{1,3}",
        "[+-][+-][0-9]{1,3}",
        "[0-9]{1,3}[+-][0-9]{0,2}",
        " [0-9]{1,2}",
        "[0-9]{1,2} ",
        "[+-]?[0-9]{1,2}e[+-]?[0-9]{1,2}",
        Just("٣".to_string()),
        Just("１２".to_string()),
        Just("0x10".to_string()),
        Just("NaN".to_string()),
        Just("inf".to_string()),
        Just("1\u{0}".to_string()),
        Just("1_000".to_string()),
        Just("-é".to_string()),
        Just("+1.5.".to_string()),
        "\\PC{1,4}",
    ]
    .boxed()
}

/// Pairs / triples that differ only in their last significant digits, 14..20 digits long (with
/// an optional decimal point somewhere inside): equal under any fixed-precision shortcut
/// (f64 holds ~15.95 digits, u64 19), different as decimal numbers.
fn near_equal_case(real: bool) -> BoxedStrategy<Case> {
    ("[1-9][0-9]{13,19}", 0u8..10, 0u8..10, 0u8..3, 0usize..20, any::<bool>(), proptest::collection::vec(bad_numeric(), 0..2))
        .prop_map(move |(base, d1, d2, back, dot_at, neg, bad)| {
            let digits: Vec<u8> = base.bytes().collect();
            let n = digits.len();
            let vary = |d: u8, k: usize| -> Vec<u8> {
                let mut v = digits.clone();
                let p = n - 1 - k.min(n - 1);
                v[p] = b'0' + d;
                v
            };
            let render = |v: Vec<u8>| -> String {
                let mut s = String::from_utf8(v).unwrap();
                if real && dot_at >= 1 && dot_at < n {
                    s.insert(dot_at, '.');
                }
                if neg {
                    s.insert(0, '-');
                }
                s
            };
            let a = render(digits.clone());
            let b = render(vary(d1, back as usize));
            let c = render(vary(d2, (back as usize + 1) % 3));
            Case::Num { real, a, b, c, bad }
        })
        .boxed()
}

fn num_case(real: bool) -> BoxedStrategy<Case> {
    prop_oneof![6 => num_case_general(real), 1 => near_equal_case(real)].boxed()
}

fn num_case_general(real: bool) -> BoxedStrategy<Case> {
    (digit_string(), digit_string(), digit_string(), digit_string(), spell(), spell(), spell(), any::<bool>(), proptest::collection::vec(bad_numeric(), 0..3))
        .prop_map(move |(i1, f1, i2, f2, sa, sb, sc, indep, bad)| {
            let a = spell_out(&i1, &f1, &sa, real);
            let b = spell_out(&i1, &f1, &sb, real);
            let c = if indep { spell_out(&i2, &f2, &sc, real) } else { spell_out(&i1, &f1, &sc, real) };
            Case::Num { real, a, b, c, bad }
        })
        .boxed()
}

fn list_string() -> BoxedStrategy<String> {
    prop_oneof![
        5 => "[ab]{0,3}",
        2 => "[a-c\u{80}-\u{ff}]{0,8}",
        1 => Just(String::new()),
        1 => "\\PC{0,10}",
        1 => "commonprefix_[ab]{0,3}",
        1 => "[a-z]{20,40}",
        1 => "[ab]{0,2}[ \u{7f}\u{80}~]{0,2}",
    ]
    .boxed()
}

fn string_list(max: usize) -> BoxedStrategy<Vec<String>> {
    prop_oneof![
        3 => proptest::collection::vec(list_string(), 0..=max.min(8)),
        3 => proptest::collection::vec(list_string(), 0..=max),
        1 => proptest::collection::vec("[ab]{0,2}", 0..=max),
        1 => proptest::collection::vec(prop_oneof![Just(String::new()), Just("a".to_string())], 0..=max.min(12)),
    ]
    .boxed()
}

fn probe() -> BoxedStrategy<Probe> {
    (
        any::<u16>(),
        prop_oneof![4 => Just(String::new()), 1 => "[ab\u{0}~\u{ff}]{1,2}"],
        prop_oneof![5 => Just(false), 1 => Just(true)],
        prop_oneof![5 => Just(None), 1 => list_string().prop_map(Some)],
    )
        .prop_map(|(k, suffix, trunc, fresh)| Probe { k, suffix, trunc, fresh })
        .boxed()
}

fn resolve(p: &Probe, list: &[String]) -> String {
    if let Some(f) = &p.fresh {
        return f.clone();
    }
    if list.is_empty() {
        return p.suffix.clone();
    }
    let mut s = list[idx(p.k, list.len())].clone();
    if p.trunc {
        s.pop();
    }
    s.push_str(&p.suffix);
    s
}

fn lex_ops() -> BoxedStrategy<Vec<LexOp>> {
    proptest::collection::vec(
        prop_oneof![
            4 => Just(LexOp::Next),
            3 => Just(LexOp::Prev),
            1 => Just(LexOp::SeekStart),
            1 => Just(LexOp::SeekEnd),
            3 => probe().prop_map(LexOp::Lower),
            2 => probe().prop_map(LexOp::Upper),
        ],
        0..24,
    )
    .boxed()
}

fn chunks() -> BoxedStrategy<Vec<u8>> {
    prop_oneof![
        2 => proptest::collection::vec(1u8..=3, 1..8),
        2 => proptest::collection::vec(1u8..=255, 1..8),
        1 => Just(vec![1u8]),
        1 => Just(vec![255u8]),
    ]
    .boxed()
}

fn str_list(tier: Tier, nul: bool) -> BoxedStrategy<StrList> {
    let big = tier.pick(60, 200);
    let plain = if nul {
        prop_oneof![
            6 => string_list(big),
            1 => proptest::collection::vec(prop_oneof![3 => list_string(), 1 => "[a\u{0}]{1,3}"], 0..12),
        ]
        .boxed()
    } else {
        string_list(big)
    };
    prop_oneof![
        20 => plain.prop_map(StrList::Plain),
        3 => (prop_oneof![2 => 500u16..700, 1 => 1u16..300, 1 => 1000u16..1400], any::<u64>(), 1u8..6, 0u8..6)
            .prop_map(|(n, seed, alpha, maxlen)| StrList::Many { n, seed, alpha, maxlen }),
        1 => (prop_oneof![1 => Just(2u8), 3 => 31u8..40], prop_oneof![Just(10u32), Just(300u32), Just(2000u32), Just(6000u32)])
            .prop_map(|(copies, len)| StrList::DupLong { copies, len }),
        1 => ((1u32 << 20) - 2..(1u32 << 20) + 3, proptest::collection::vec("[a-z]{0,3}", 0..4))
            .prop_map(|(len, others)| StrList::Huge { len, others }),
    ]
    .boxed()
}

fn line_text() -> BoxedStrategy<String> {
    prop_oneof![
        3 => "[a-c ,;]{0,12}",
        2 => Just(String::new()),
        2 => "[ \t]{1,3}",
        2 => "[ \t]{0,2}[a-z,]{1,6}[ \t]{0,2}",
        1 => "[\u{a0}\u{2003}]{0,2}[a-zé,]{0,4}[\u{a0}\u{3000}]{0,2}",
        1 => "\\PC{0,12}",
        1 => "[a,]{0,3}(::)?[b,]{0,3}",
    ]
    .prop_map(|s: String| s.replace(['\n', '\r'], ""))
    .boxed()
}

fn lines_case(preset: u8) -> BoxedStrategy<Case> {
    let spec = (line_text(), prop_oneof![12 => Just(1u16), 2 => 2u16..40, 1 => 3000u16..9000], any::<bool>()).prop_map(|(text, rep, crlf)| LineSpec { text, rep, crlf });
    (
        proptest::collection::vec(spec, 0..10),
        any::<bool>(),
        chunks(),
        1u8..6,
        prop_oneof![Just(",".to_string()), Just("::".to_string()), Just(" ".to_string()), Just("a".to_string()), Just("é".to_string())],
        prop_oneof![3 => Just(None), 1 => (0u8..6).prop_map(Some)],
    )
        .prop_map(move |(lines, final_nl, chunks, batch, delim, stop_after)| Case::Lines { preset, lines, final_nl, chunks, batch, delim, stop_after })
        .boxed()
}

fn word_text() -> BoxedStrategy<Vec<u8>> {
    let ch = prop_oneof![
        6 => prop_oneof![b'a'..=b'z', b'A'..=b'Z', b'0'..=b'9', Just(b'_')],
        3 => prop_oneof![Just(b' '), Just(b'-'), Just(b','), Just(b'\n'), Just(b'.')],
        3 => prop_oneof![Just(b'@'), Just(b'['), Just(b'`'), Just(b'{'), Just(b'/'), Just(b':'), Just(b'^')],
        2 => prop_oneof![0x80u8..=0xff, Just(0u8), Just(0x7fu8)],
        1 => any::<u8>(),
    ];
    // runs of word / non-word bytes whose lengths sit on and around the block sizes a vectorised
    // scanner would use (16, 32, 64, 128): a word that ends on the last byte of a block, whole
    // blocks without a word character, a word that starts on the first byte of a block, ...
    let run_len = prop_oneof![
        4 => proptest::sample::select(vec![1usize, 2, 15, 16, 17, 31, 32, 33, 59, 63, 64, 65, 127, 128, 129, 192]),
        2 => 1usize..=8,
        1 => 1usize..=200,
    ];
    let runs = proptest::collection::vec((any::<bool>(), run_len, prop_oneof![Just(b' '), Just(b'-'), Just(b'\n'), Just(0xC3u8), Just(b'@')], prop_oneof![Just(b'a'), Just(b'Z'), Just(b'7'), Just(b'_')]), 1..9).prop_map(|rs| {
        let mut out = vec![];
        for (word, n, sep, w) in rs {
            out.extend(std::iter::repeat(if word { w } else { sep }).take(n));
        }
        out
    });
    prop_oneof![3 => proptest::collection::vec(ch.clone(), 0..12), 2 => proptest::collection::vec(ch, 0..80), 2 => runs].boxed()
}

const LINE_PRESETS: &[&str] = &["default", "performance", "memory", "secure", "preserve_endings", "skip_empty"];

static POOL: [&[u8]; 8] = [b"", b"a", b"bc", b"\x00", b"\xff\xfe", b", ", b"hello", b"\n"];

// ---------------------------------------------------------------------------------------
// reference helpers (independent of zipora)
// ---------------------------------------------------------------------------------------

fn naive_cmp(a: &[u8], b: &[u8]) -> Ordering {
    let n = a.len().min(b.len());
    for i in 0..n {
        if a[i] != b[i] {
            return if (a[i] as u32) < (b[i] as u32) { Ordering::Less } else { Ordering::Greater };
        }
    }
    if a.len() < b.len() {
        Ordering::Less
    } else if a.len() > b.len() {
        Ordering::Greater
    } else {
        Ordering::Equal
    }
}

fn naive_find(h: &[u8], n: &[u8]) -> Option<usize> {
    if n.len() > h.len() {
        return None;
    }
    for i in 0..=(h.len() - n.len()) {
        if (0..n.len()).all(|k| h[i + k] == n[k]) {
            return Some(i);
        }
    }
    None
}

/// non-overlapping, left-to-right split on a non-empty delimiter (n+1 fields for n delimiters)
fn naive_split(line: &str, delim: &str) -> Vec<String> {
    let (h, d) = (line.as_bytes(), delim.as_bytes());
    let mut out = vec![];
    let mut start = 0;
    let mut i = 0;
    while i + d.len() <= h.len() {
        if &h[i..i + d.len()] == d {
            out.push(String::from_utf8_lossy(&h[start..i]).into_owned());
            i += d.len();
            start = i;
        } else {
            i += 1;
        }
    }
    out.push(String::from_utf8_lossy(&h[start..]).into_owned());
    out
}

fn naive_join(sep: &[u8], parts: &[&[u8]]) -> Vec<u8> {
    let mut out = vec![];
    for (i, p) in parts.iter().enumerate() {
        if i > 0 {
            out.extend_from_slice(sep);
        }
        out.extend_from_slice(p);
    }
    out
}

fn ref_mix(mut h: u64, w: u64) -> u64 {
    h = h.wrapping_add(w);
    h = h.wrapping_mul(0x9e3779b97f4a7c15);
    h ^= h >> 30;
    h = h.wrapping_mul(0xbf58476d1ce4e5b9);
    h ^= h >> 27;
    h = h.wrapping_mul(0x94d049bb133111eb);
    h ^= h >> 31;
    h
}

/// the portable (8 bytes at a time) definition of `hash_fast` documented in fast_str.rs
fn ref_hash(data: &[u8]) -> u64 {
    let mut h = 2134173u64.wrapping_add((data.len() as u64).wrapping_mul(31));
    let full = data.len() / 8;
    for c in 0..full {
        let mut w = 0u64;
        for k in 0..8 {
            w |= (data[c * 8 + k] as u64) << (8 * k);
        }
        h = ref_mix(h, w);
    }
    let rem = &data[full * 8..];
    if rem.is_empty() {
        return h;
    }
    for &b in rem {
        h = h.wrapping_add(b as u64);
        h = h.wrapping_mul(0x9e3779b97f4a7c15);
        h ^= h >> 17;
    }
    h ^= h >> 33;
    h = h.wrapping_mul(0xff51afd7ed558ccd);
    h ^= h >> 33;
    h = h.wrapping_mul(0xc4ceb9fe1a85ec53);
    h ^= h >> 33;
    h
}

fn std_hash<T: std::hash::Hash>(t: &T) -> u64 {
    use std::hash::Hasher;
    let mut h = std::collections::hash_map::DefaultHasher::new();
    t.hash(&mut h);
    h.finish()
}

/// Canonical value of a numeric string: sign, integer digits without leading zeros, fraction
/// digits without trailing zeros (zero has `neg == false`).
#[derive(Clone, Debug, PartialEq, Eq)]
struct Canon {
    neg: bool,
    int: Vec<u8>,
    frac: Vec<u8>,
}

enum Validity {
    Valid(Canon),
    Invalid,
    /// accepted by no documented rule and rejected by none (digit-less "." forms)
    Unspecified,
}

fn classify_num(s: &str, real: bool) -> Validity {
    let b = s.as_bytes();
    let (neg, rest) = match b.first() {
        Some(b'+') => (false, &b[1..]),
        Some(b'-') => (true, &b[1..]),
        _ => (false, b),
    };
    if rest.is_empty() {
        return Validity::Invalid;
    }
    let mut dots = 0;
    let mut digits = 0;
    for &c in rest {
        if c == b'.' && real {
            dots += 1;
        } else if c.is_ascii_digit() {
            digits += 1;
        } else {
            return Validity::Invalid;
        }
    }
    if dots > 1 {
        return Validity::Invalid;
    }
    if digits == 0 {
        return Validity::Unspecified;
    }
    let dot = rest.iter().position(|&c| c == b'.').unwrap_or(rest.len());
    let mut int: Vec<u8> = rest[..dot].to_vec();
    while int.first() == Some(&b'0') {
        int.remove(0);
    }
    let mut frac: Vec<u8> = if dot < rest.len() { rest[dot + 1..].to_vec() } else { vec![] };
    while frac.last() == Some(&b'0') {
        frac.pop();
    }
    let zero = int.is_empty() && frac.is_empty();
    Validity::Valid(Canon { neg: neg && !zero, int, frac })
}

fn canon_cmp(a: &Canon, b: &Canon) -> Ordering {
    match (a.neg, b.neg) {
        (true, false) => return Ordering::Less,
        (false, true) => return Ordering::Greater,
        _ => {}
    }
    let mag = if a.int.len() != b.int.len() {
        a.int.len().cmp(&b.int.len())
    } else {
        match naive_cmp(&a.int, &b.int) {
            Ordering::Equal => naive_cmp(&a.frac, &b.frac), // no trailing zeros: prefix < extension
            o => o,
        }
    };
    if a.neg {
        mag.reverse()
    } else {
        mag
    }
}

/// (sign-less text, negative flag) the way the `_with_sign` forms expect them
fn split_sign(s: &str) -> (&str, bool) {
    match s.as_bytes().first() {
        Some(b'+') => (&s[1..], false),
        Some(b'-') => (&s[1..], true),
        _ => (s, false),
    }
}

/// deterministic input class of a pair of valid numeric strings (most specific first)
fn pair_class(a: &str, b: &str, real: bool) -> &'static str {
    let feat = |s: &str| {
        let (t, _) = split_sign(s);
        let dot = t.find('.');
        let ip = &t[..dot.unwrap_or(t.len())];
        let fp = dot.map(|d| &t[d + 1..]);
        let bare = dot.is_some() && (ip.is_empty() || fp == Some(""));
        let lead = ip.len() > 1 && ip.starts_with('0');
        let trail = fp.map_or(false, |f| f.ends_with('0'));
        (bare, lead, trail, fp.map_or(0, |f| f.len()), ip.len())
    };
    let (fa, fb) = (feat(a), feat(b));
    let zero = |s: &str| matches!(classify_num(s, real), Validity::Valid(c) if c.int.is_empty() && c.frac.is_empty());
    if fa.0 || fb.0 {
        "bare_dot"
    } else if zero(a) && zero(b) && split_sign(a).1 != split_sign(b).1 {
        "signed_zero"
    } else if fa.1 || fb.1 {
        "leading_zeros"
    } else if fa.2 || fb.2 {
        "trailing_frac_zeros"
    } else if fa.3 != fb.3 {
        "frac_len_differs"
    } else if fa.4 != fb.4 {
        "int_len_differs"
    } else {
        "plain"
    }
}

fn class_rank(c: &str) -> u8 {
    match c {
        "bare_dot" => 0,
        "signed_zero" => 1,
        "leading_zeros" => 2,
        "trailing_frac_zeros" => 3,
        "frac_len_differs" => 4,
        "int_len_differs" => 5,
        _ => 6,
    }
}

/// `Read` adaptor that returns at most the next generated chunk size per call.
struct Chunked<'a> {
    data: &'a [u8],
    pos: usize,
    chunks: &'a [u8],
    ci: usize,
}
impl<'a> Read for Chunked<'a> {
    fn read(&mut self, buf: &mut [u8]) -> std::io::Result<usize> {
        if buf.is_empty() || self.pos >= self.data.len() {
            return Ok(0);
        }
        let c = if self.chunks.is_empty() { 255 } else { self.chunks[self.ci % self.chunks.len()].max(1) } as usize;
        self.ci += 1;
        // never split a UTF-8 sequence?  BufReader::read_line handles split sequences itself, so
        // arbitrary cut points are fine.
        let n = c.min(buf.len()).min(self.data.len() - self.pos);
        buf[..n].copy_from_slice(&self.data[self.pos..self.pos + n]);
        self.pos += n;
        Ok(n)
    }
}

fn has_dups(sorted: &[String]) -> bool {
    sorted.windows(2).any(|w| w[0] == w[1])
}

fn list_class(sorted: &[String]) -> &'static str {
    if has_dups(sorted) {
        "dups"
    } else {
        "distinct"
    }
}

fn list_labels(ctx: &mut Ctx, list: &[String]) {
    let mut s = list.to_vec();
    s.sort();
    let d = has_dups(&s);
    let e = list.iter().any(|x| x.is_empty());
    ctx.label(format!("list_len_{}", match list.len() { 0 => "0", 1 => "1", 2..=8 => "2-8", 9..=64 => "9-64", 65..=512 => "65-512", _ => "513+" }));
    if d {
        ctx.label("has_duplicates");
    }
    if e {
        ctx.label("has_empty_string");
    }
    if list.iter().any(|x| !x.is_ascii()) {
        ctx.label("has_non_ascii");
    }
    if d && e {
        ctx.nontrivial();
    }
}

// ---------------------------------------------------------------------------------------
// the property
// ---------------------------------------------------------------------------------------

impl Prop for P {
    fn id(&self) -> &'static str {
        "C20"
    }
    fn rule(&self) -> &'static str {
        "one proptest strategy per cell. faststr: byte strings 0-80 (+ a few longer), b derived from a (equal copy at another alignment / one byte changed, biased to >=0x80 / prefix / extension / independent); non-trivial = common prefix >= 8 and a differing byte >= 0x80, or equal contents at different alignments with len >= 8. numeric: three spellings (sign, leading zeros, trailing fraction zeros, digit edits, 20-45 digit values) of one or two base values + invalid strings; non-trivial = a pair of different textual length whose canonical integer parts differ in length by <= 1. lists (lex iterators, sorted vectors, join): strings over tiny alphabets + unicode + empty; non-trivial = >= 1 duplicate and >= 1 empty string (join: >= 2 parts with an empty part). words/lines/case: non-trivial = >= 2 words / >= 2 lines with mixed endings or an empty line / a cased ASCII letter next to a non-ASCII char or len >= 8. distinct by hash of the case JSON"
    }
    fn assumptions(&self) -> Vec<String> {
        vec![
            "numeric: valid = [+-]?digits for decimal_strcmp, [+-]? digits with at most one '.' and at least one digit for realnum_strcmp (forms like '.5' and '1.' are accepted by the validator and carry the class 'bare_dot'); digit-less forms ('.', '+.') are neither generated as valid nor asserted as invalid".into(),
            "FastStr::substring is only called with start <= len (a byte slice would panic as well); FastStr::split drops one trailing empty part (pinned by the unit test test_split_edge_cases)".into(),
            "SortedVecLexIterator: prev() from the past-the-end state and the bool returned by seek_upper_bound are not asserted (undocumented); inputs are sorted by the harness (documented precondition)".into(),
            "StreamingLexIterator: strings contain no '\\n' / '\\r'; current() before the first next() is not asserted; collect_all/find_common_prefix/count_with_prefix on a streaming iterator return Err(not supported) = refused".into(),
            "ZoSortedStrVec::binary_search / SortableStrVec::binary_search may return any index of an equal element (std semantics); Err(i) must be the unique insertion point".into(),
            "LineProcessor: a line ends at '\\n' (optionally preceded by one '\\r'); lone '\\r' is not generated; only valid UTF-8; delimiters non-empty; batch_size >= 1; line numbers / field numbers only required to be strictly increasing; the count returned after an early stop is not asserted; configs = the four presets + default with preserve_line_endings + default with skip_empty_lines".into(),
            "join_fast_str is only given valid UTF-8 parts (lossy conversion of other bytes is undocumented)".into(),
            "to_lowercase_unicode/to_uppercase_unicode are compared with the per-char Unicode mapping; inputs contain no capital sigma (context-sensitive)".into(),
            "is_punctuation is not asserted (outside the statement); is_word_boundary only for pos <= len".into(),
        ]
    }
    fn plans(&self, tier: Tier) -> Vec<Plan> {
        let q = |a, b| tier.pick(a, b);
        let mut v = vec![];
        v.push(Plan::new("faststr", q(60_000, 600_000), q(3000, 30_000), fast_case(q(300, 5000))));
        v.push(Plan::new("numeric_decimal", q(40_000, 400_000), 0, num_case(false)));
        v.push(Plan::new("numeric_real", q(60_000, 600_000), 0, num_case(true)));
        v.push(Plan::new(
            "lex_sorted_vec",
            q(40_000, 400_000),
            0,
            (string_list(q(40, 120)), lex_ops(), proptest::collection::vec(probe(), 0..4)).prop_map(|(list, ops, probes)| Case::LexVec { list, ops, probes }),
        ));
        v.push(Plan::new(
            "lex_streaming",
            q(20_000, 200_000),
            0,
            (string_list(q(30, 100)), proptest::collection::vec(any::<bool>(), 0..6), any::<bool>(), chunks(), any::<bool>())
                .prop_map(|(list, crlf, final_nl, chunks, via_builder)| Case::LexStream { list, crlf, final_nl, chunks, via_builder }),
        ));
        v.push(Plan::new(
            "sortable_str_vec",
            q(12_000, 120_000),
            q(600, 6000),
            (str_list(tier, false), 0u8..5, proptest::collection::vec(probe(), 0..6), proptest::option::of(list_string()))
                .prop_map(|(list, sort, probes, extra)| Case::Sortable { list, sort, probes, extra }),
        ));
        v.push(Plan::new(
            "zo_sorted_str_vec",
            q(25_000, 250_000),
            q(1200, 12_000),
            (str_list(tier, true), 0u8..3, proptest::collection::vec(probe(), 0..6), proptest::collection::vec((probe(), probe()), 0..4))
                .prop_map(|(list, ctor, probes, ranges)| Case::Zo { list, ctor, probes, ranges }),
        ));
        v.push(Plan::new(
            "join",
            q(25_000, 250_000),
            0,
            (
                string_list(12),
                prop_oneof![Just(String::new()), Just(", ".to_string()), Just("é".to_string()), "\\PC{0,3}", Just("\u{0}".to_string())],
                proptest::collection::vec(byte_string(100).prop_map(Bytes), 0..8),
                byte_string(100).prop_map(|mut b| {
                    b.truncate(4);
                    Bytes(b)
                }),
                proptest::collection::vec(0u8..8, 0..8),
            )
                .prop_map(|(parts, sep, bparts, bsep, pool)| Case::Join { parts, sep, bparts, bsep, pool }),
        ));
        v.push(Plan::new("words", q(20_000, 200_000), 0, word_text().prop_map(|t| Case::Words { text: Bytes(t) })));
        for (i, name) in LINE_PRESETS.iter().enumerate() {
            v.push(Plan::new(&format!("lines_{name}"), q(if *name == "secure" { 3000 } else { 8000 }, 80_000), 0, lines_case(i as u8)));
        }
        v.push(Plan::new(
            "line_splitter",
            q(20_000, 200_000),
            0,
            (
                0u8..3,
                proptest::collection::vec(prop_oneof![3 => "[ab,\t ;:]{0,10}", 1 => "\\PC{0,8}", 1 => "[a,]{0,4}é[b,]{0,3}"], 1..4),
                prop_oneof![Just(",".to_string()), Just("\t".to_string()), Just(" ".to_string()), Just(";".to_string()), Just("::".to_string()), Just("ab".to_string()), Just("é".to_string())],
            )
                .prop_map(|(strategy, lines, delim)| Case::Splitter { strategy, lines, delim }),
        ));
        v.push(Plan::new(
            "case",
            q(20_000, 200_000),
            0,
            prop_oneof![
                3 => "[a-zA-Z@\\[`{_0-9 ]{0,40}",
                2 => "[a-zA-Z@\\[`{éÉßİıǅ\u{80}-\u{24f}]{0,24}",
                1 => "[^Σ\\p{Cc}]{0,16}",
                1 => "[A-Za-z]{7,9}[éÀ]{0,2}[A-Za-z]{7,9}",
            ]
            .prop_map(|s| Case::CaseConv { s }),
        ));
        v.push(Plan::new(
            "unicode",
            q(20_000, 200_000),
            0,
            prop_oneof![
                3 => "\\PC{0,20}".prop_map(|s: String| s.into_bytes()),
                2 => "[a-z]{0,70}".prop_map(|s: String| s.into_bytes()),
                2 => ("[a-zé€𝄞]{0,48}", any::<u16>(), any::<u8>()).prop_map(|(s, p, b): (String, u16, u8)| {
                    let mut v = s.into_bytes();
                    if !v.is_empty() {
                        let i = idx(p, v.len());
                        v[i] = b;
                    }
                    v
                }),
                1 => byte_string(100),
            ]
            .prop_map(|b| Case::Unicode { b: Bytes(b) }),
        ));
        v
    }

    fn run(&self, case: &Value, ctx: &mut Ctx) {
        let c: Case = decode(case);
        match c {
            Case::Fast { a, b, pad_a, pad_b, i, j, byte, nmode } => run_fast(ctx, &a.0, &b.0, pad_a, pad_b, i, j, byte, nmode),
            Case::Num { real, a, b, c, bad } => run_num(ctx, real, &a, &b, &c, &bad),
            Case::LexVec { list, ops, probes } => run_lex_vec(ctx, list, &ops, &probes),
            Case::LexStream { list, crlf, final_nl, chunks, via_builder } => run_lex_stream(ctx, list, &crlf, final_nl, &chunks, via_builder),
            Case::Sortable { list, sort, probes, extra } => run_sortable(ctx, &list, sort, &probes, extra),
            Case::Zo { list, ctor, probes, ranges } => run_zo(ctx, &list, ctor, &probes, &ranges),
            Case::Join { parts, sep, bparts, bsep, pool } => run_join(ctx, &parts, &sep, &bparts, &bsep.0, &pool),
            Case::Words { text } => run_words(ctx, &text.0),
            Case::Lines { preset, lines, final_nl, chunks, batch, delim, stop_after } => run_lines(ctx, preset, &lines, final_nl, &chunks, batch, &delim, stop_after),
            Case::Splitter { strategy, lines, delim } => run_splitter(ctx, strategy, &lines, &delim),
            Case::CaseConv { s } => run_case(ctx, &s),
            Case::Unicode { b } => run_unicode(ctx, &b.0),
        }
    }
}

// ---------------------------------------------------------------------------------------
// faststr
// ---------------------------------------------------------------------------------------

fn len_class(n: usize) -> &'static str {
    match n {
        0 => "len0",
        1..=7 => "len1-7",
        8..=31 => "len8-31",
        32..=63 => "len32-63",
        _ => "len64+",
    }
}

fn run_fast(ctx: &mut Ctx, a: &[u8], b: &[u8], pad_a: u8, pad_b: u8, i: u16, j: u16, byte: u8, nmode: u8) {
    // the same bytes placed at two different offsets of two different allocations
    let place = |d: &[u8], pad: u8| {
        let mut v = vec![0xA5u8; pad as usize];
        v.extend_from_slice(d);
        v.push(0x5A);
        v
    };
    let (buf_a, buf_a2, buf_b) = (place(a, pad_a), place(a, pad_b), place(b, pad_b));
    let sa = &buf_a[pad_a as usize..pad_a as usize + a.len()];
    let sa2 = &buf_a2[pad_b as usize..pad_b as usize + a.len()];
    let sb = &buf_b[pad_b as usize..pad_b as usize + b.len()];
    let (fa, fa2, fb) = (FastStr::new(sa), FastStr::new(sa2), FastStr::new(sb));
    let lc = len_class(a.len());
    ctx.label(lc);
    let cpl = a.iter().zip(b.iter()).take_while(|(x, y)| x == y).count();
    let high_diff = cpl < a.len().min(b.len()) && (a[cpl] >= 0x80 || b[cpl] >= 0x80);
    if a == b {
        ctx.label("pair_equal");
    } else if cpl >= 8 {
        ctx.label(if high_diff { "pair_prefix>=8_high_diff" } else { "pair_prefix>=8" });
    } else {
        ctx.label("pair_prefix<8");
    }
    if (cpl >= 8 && high_diff) || (a.len() >= 8 && pad_a % 8 != pad_b % 8) {
        ctx.nontrivial();
    }

    // views
    ctx.eq("len", "", &fa.len(), &a.len());
    ctx.eq("len", "is_empty", &fa.is_empty(), &a.is_empty());
    ctx.eq("as_bytes", "", &fa.as_bytes(), &a);
    ctx.eq("as_bytes", "as_ref", &AsRef::<[u8]>::as_ref(&fa), &a);
    ctx.eq("as_bytes", "from_slice", &FastStr::from(sa).as_bytes(), &a);
    // equality
    ctx.eq("eq", "same_bytes_other_alignment", &(fa == fa2), &true);
    ctx.eq("eq", lc, &(fa == fb), &(a == b));
    ctx.eq("eq", "ne", &(fa != fb), &(a != b));
    ctx.eq("eq", "slice", &(fa == *sb), &(a == b));
    ctx.eq("eq", "slice_ref", &(fa == sb), &(a == b));
    if let Ok(s) = std::str::from_utf8(b) {
        ctx.eq("eq", "str", &(fa == *s), &(a == b));
        ctx.eq("eq", "str_ref", &(fa == s), &(a == b));
        ctx.eq("eq", "string", &(fa == s.to_string()), &(a == b));
        ctx.eq("as_bytes", "from_str", &FastStr::from(s).as_bytes(), &b);
        ctx.eq("as_bytes", "from_string", &FastStr::from_string(s).as_bytes(), &b);
    }
    // ordering: lexicographic by unsigned byte
    let want = naive_cmp(a, b);
    let oc = if a == b {
        "equal"
    } else if cpl == a.len().min(b.len()) {
        "prefix"
    } else if high_diff {
        "diff_byte>=0x80"
    } else {
        "diff_byte<0x80"
    };
    ctx.eq("ord", oc, &fa.cmp(&fb), &want);
    ctx.eq("ord", oc, &fb.cmp(&fa), &want.reverse());
    ctx.eq("ord", "partial_cmp", &fa.partial_cmp(&fb), &Some(want));
    ctx.eq("ord", "compare", &fa.compare(fb), &want);
    ctx.eq("ord", "lt", &(fa < fb), &(want == Ordering::Less));
    ctx.eq("ord", "le", &(fa <= fb), &(want != Ordering::Greater));
    ctx.eq("ord", "same_bytes_other_alignment", &fa.cmp(&fa2), &Ordering::Equal);
    // hashing: equal strings hash equally, for every hasher exposed
    ctx.eq("hash", "hash_fast_alignment", &fa.hash_fast(), &fa2.hash_fast());
    ctx.eq("hash", "std_hash_alignment", &std_hash(&fa), &std_hash(&fa2));
    if a == b {
        ctx.eq("hash", "hash_fast_equal", &fa.hash_fast(), &fb.hash_fast());
        ctx.eq("hash", "std_hash_equal", &std_hash(&fa), &std_hash(&fb));
    }
    ctx.eq("hash_portable", lc, &fa.hash_fast(), &ref_hash(a));
    // prefix / suffix tests
    let starts = b.len() <= a.len() && (0..b.len()).all(|k| a[k] == b[k]);
    let ends = b.len() <= a.len() && (0..b.len()).all(|k| a[a.len() - b.len() + k] == b[k]);
    ctx.eq("starts_with", "", &fa.starts_with(fb), &starts);
    ctx.eq("ends_with", "", &fa.ends_with(fb), &ends);
    ctx.eq("starts_with", "self", &fa.starts_with(fa2), &true);
    ctx.eq("ends_with", "empty", &fa.ends_with(FastStr::new(&[])), &true);
    ctx.eq("common_prefix_len", "", &fa.common_prefix_len(fb), &cpl);
    ctx.eq("common_prefix_len", "self", &fa.common_prefix_len(fa2), &a.len());
    // slicing
    let n = a.len();
    let (pi, pj) = (idx(i, n + 1), idx(j, n + 3));
    let big = if j & 1 == 1 { usize::MAX - (j as usize >> 3) } else { pj };
    for l in [pj, big] {
        let end = pi.saturating_add(l).min(n);
        if let Some(r) = ctx.no_panic("substring", || fa.substring(pi, l).as_bytes().to_vec()) {
            ctx.eq("substring", "", &r, &a[pi..end].to_vec());
        }
        let k = l.min(n);
        if let Some(r) = ctx.no_panic("prefix", || fa.prefix(l).as_bytes().to_vec()) {
            ctx.eq("prefix", "", &r, &a[..k].to_vec());
        }
        if let Some(r) = ctx.no_panic("suffix", || fa.suffix(l).as_bytes().to_vec()) {
            ctx.eq("suffix", "", &r, &a[n - k..].to_vec());
        }
        if let Some(r) = ctx.no_panic("substring_from", || fa.substring_from(l).as_bytes().to_vec()) {
            ctx.eq("substring_from", "", &r, &a[k..].to_vec());
        }
    }
    for p in [pi, pj, n, big] {
        ctx.eq("get_byte", "", &fa.get_byte(p), &(if p < n { Some(a[p]) } else { None }));
    }
    // find
    let needle: Vec<u8> = match nmode {
        0 | 1 => {
            let s = pi.min(n);
            let e = (s + (pj % 9)).min(n);
            let mut v = a[s..e].to_vec();
            if nmode == 1 {
                if let Some(l) = v.last_mut() {
                    *l = l.wrapping_add(1);
                }
            }
            v
        }
        2 => b.to_vec(),
        3 => vec![],
        4 => vec![byte],
        _ => {
            // a needle that straddles the end
            let s = n.saturating_sub(3);
            let mut v = a[s..].to_vec();
            v.push(byte);
            v
        }
    };
    ctx.label(format!("needle_{}", match needle.len() { 0 => "empty", 1 => "1", 2..=3 => "2-3", _ => "4+" }));
    let nf = FastStr::new(&needle);
    if let Some(r) = ctx.no_panic("find", || fa.find(nf)) {
        ctx.eq("find", if needle.len() <= 1 { "needle<=1" } else { "needle>=2" }, &r, &naive_find(a, &needle));
    }
    let pos = a.iter().position(|&x| x == byte);
    ctx.eq("find_byte", "", &fa.find_byte(byte), &pos);
    ctx.eq("find_byte", "optimized", &fa.find_byte_optimized(byte), &pos);
    if let Some(&x) = a.get(pi.min(n.saturating_sub(1))) {
        ctx.eq("find_byte", "present", &fa.find_byte(x), &a.iter().position(|&y| y == x));
    }
    // text conversions
    ctx.eq("as_str", "", &fa.as_str(), &std::str::from_utf8(a).ok());
    ctx.eq("into_string", "", &fa.into_string(), &String::from_utf8_lossy(a).into_owned());
    ctx.eq("into_string", "cow", &fa.to_cow_str().into_owned(), &String::from_utf8_lossy(a).into_owned());
    // split: parts between delimiters, one trailing empty part dropped, nothing for ""
    let mut want_parts: Vec<Vec<u8>> = vec![];
    if !a.is_empty() {
        let mut cur = vec![];
        for &x in a {
            if x == byte {
                want_parts.push(std::mem::take(&mut cur));
            } else {
                cur.push(x);
            }
        }
        if a[n - 1] != byte {
            want_parts.push(cur);
        }
    }
    if let Some(got) = ctx.no_panic("split", || fa.split(byte).map(|p| p.as_bytes().to_vec()).collect::<Vec<_>>()) {
        ctx.eq("split", "", &got, &want_parts);
    }
}

// ---------------------------------------------------------------------------------------
// numeric comparators
// ---------------------------------------------------------------------------------------

fn run_num(ctx: &mut Ctx, real: bool, a: &str, b: &str, c: &str, bad: &[String]) {
    let cmp = |x: &str, y: &str| if real { realnum_strcmp(x, y) } else { decimal_strcmp(x, y) };
    let cmp_ws = |x: &str, xn: bool, y: &str, yn: bool| if real { realnum_strcmp_with_sign(x, xn, y, yn) } else { decimal_strcmp_with_sign(x, xn, y, yn) };
    let items = [a, b, c];
    let mut canon: Vec<Option<Canon>> = vec![];
    for s in items {
        match classify_num(s, real) {
            Validity::Valid(cn) => canon.push(Some(cn)),
            _ => canon.push(None), // cannot happen by construction; such a string is simply not used
        }
    }
    for s in items {
        let (t, _) = split_sign(s);
        ctx.label(format!("digits_{}", match t.len() { 0..=4 => "<=4", 5..=19 => "5-19", 20..=38 => "20-38", _ => "39+" }));
        if s.starts_with('-') {
            ctx.label("negative");
        }
        if s.starts_with('+') {
            ctx.label("plus_sign");
        }
    }
    // pairwise: order by numeric value, antisymmetry, reflexivity, the *_with_sign forms
    let mut res = [[None::<Ordering>; 3]; 3];
    for x in 0..3 {
        for y in 0..3 {
            let (Some(cx), Some(cy)) = (&canon[x], &canon[y]) else { continue };
            let cls = pair_class(items[x], items[y], real);
            ctx.label(format!("pair_{cls}"));
            let want = canon_cmp(cx, cy);
            if want == Ordering::Equal && items[x] != items[y] {
                ctx.label("equal_value_different_text");
            }
            if items[x].len() != items[y].len() && (cx.int.len() as i64 - cy.int.len() as i64).abs() <= 1 {
                ctx.nontrivial();
            }
            let Some(got) = ctx.no_panic("order", || cmp(items[x], items[y])) else { continue };
            match got {
                None => ctx.fail("accepts_valid", "mismatch", cls, format!("cmp({:?},{:?}) = None for two valid strings", items[x], items[y])),
                Some(g) => {
                    res[x][y] = Some(g);
                    if x == y {
                        ctx.eq("reflexive", cls, &g, &Ordering::Equal);
                    }
                    if !ctx.eq("order", cls, &g, &want) {
                        // detail already holds got/want; add the operands
                        ctx.label("order_mismatch_seen");
                    }
                }
            }
            let ((tx, nx), (ty, ny)) = (split_sign(items[x]), split_sign(items[y]));
            if let Some(g) = ctx.no_panic("with_sign", || cmp_ws(tx, nx, ty, ny)) {
                ctx.eq("with_sign", cls, &g, &want);
            }
        }
    }
    for x in 0..3 {
        for y in (x + 1)..3 {
            if let (Some(g), Some(h)) = (res[x][y], res[y][x]) {
                ctx.eq("antisymmetric", pair_class(items[x], items[y], real), &g, &h.reverse());
            }
        }
    }
    // transitivity of the relation the implementation answers, over all orderings of the triple
    if canon.iter().all(|c| c.is_some()) {
        let tcls = [(0, 1), (1, 2), (0, 2)].iter().map(|&(x, y)| pair_class(items[x], items[y], real)).min_by_key(|c| class_rank(c)).unwrap_or("plain");
        for (x, y, z) in [(0, 1, 2), (0, 2, 1), (1, 0, 2), (1, 2, 0), (2, 0, 1), (2, 1, 0)] {
            let (Some(xy), Some(yz), Some(xz)) = (res[x][y], res[y][z], res[x][z]) else { continue };
            if xy != Ordering::Greater && yz != Ordering::Greater {
                let strict = xy == Ordering::Less || yz == Ordering::Less;
                let ok = if strict { xz == Ordering::Less } else { xz == Ordering::Equal };
                ctx.ensure("transitive", tcls, ok, || format!("{:?} {:?} {:?}, {:?} {:?} {:?}, but {:?} {:?} {:?}", items[x], xy, items[y], items[y], yz, items[z], items[x], xz, items[z]));
            }
        }
    }
    // invalid strings are rejected whatever the other operand is
    for s in bad {
        match classify_num(s, real) {
            Validity::Invalid => {
                let cls = if s.is_empty() {
                    "empty"
                } else if s == "+" || s == "-" {
                    "sign_only"
                } else if !s.is_ascii() {
                    "non_ascii"
                } else if s.matches('.').count() >= 2 {
                    "two_dots"
                } else if s.contains('.') {
                    "dot"
                } else {
                    "other_char"
                };
                ctx.label(format!("invalid_{cls}"));
                for (l, r) in [(s.as_str(), a), (a, s.as_str()), (s.as_str(), s.as_str())] {
                    if let Some(g) = ctx.no_panic("rejects_invalid", || cmp(l, r)) {
                        ctx.ensure("rejects_invalid", cls, g.is_none(), || format!("cmp({l:?},{r:?}) = {g:?}, expected None"));
                    }
                }
            }
            Validity::Valid(_) => ctx.label("bad_candidate_was_valid"),
            Validity::Unspecified => ctx.label("bad_candidate_unspecified"),
        }
    }
}

// ---------------------------------------------------------------------------------------
// lexicographic iterators
// ---------------------------------------------------------------------------------------

fn lower_bound(sorted: &[String], t: &str) -> usize {
    sorted.iter().take_while(|s| naive_cmp(s.as_bytes(), t.as_bytes()) == Ordering::Less).count()
}
fn upper_bound(sorted: &[String], t: &str) -> usize {
    sorted.iter().take_while(|s| naive_cmp(s.as_bytes(), t.as_bytes()) != Ordering::Greater).count()
}

/// Where is the cursor really?  Walk back to the start counting steps, then forward again.
fn actual_position(it: &mut SortedVecLexIterator<'_>) -> Option<usize> {
    if it.current().is_none() {
        return None;
    }
    let mut k = 0usize;
    while let Ok(true) = it.prev() {
        k += 1;
        if k > 100_000 {
            break;
        }
    }
    for _ in 0..k {
        let _ = it.next();
    }
    Some(k)
}

fn run_lex_vec(ctx: &mut Ctx, list: Vec<String>, ops: &[LexOp], probes: &[Probe]) {
    list_labels(ctx, &list);
    let mut sorted = list.clone();
    sorted.sort_by(|a, b| naive_cmp(a.as_bytes(), b.as_bytes()));
    let n = sorted.len();
    let cls = list_class(&sorted);
    let Some(mut it) = ctx.no_panic("new", || SortedVecLexIterator::new(&sorted)) else { return };
    let mut pos: Option<usize> = if n == 0 { None } else { Some(0) };
    ctx.eq("size_hint", "", &it.size_hint(), &Some(n));
    ctx.eq("current", "initial", &it.current().map(|s| s.to_string()), &pos.map(|p| sorted[p].clone()));
    for op in ops {
        if ctx.saturated() {
            break;
        }
        match op {
            LexOp::Next => {
                let want = match pos {
                    Some(p) if p + 1 < n => {
                        pos = Some(p + 1);
                        true
                    }
                    _ => {
                        pos = None;
                        false
                    }
                };
                ctx.eq("next", "", &it.next().ok(), &Some(want));
            }
            LexOp::Prev => match pos {
                None => ctx.label("prev_from_end_not_asserted"),
                Some(p) => {
                    let want = p > 0;
                    if want {
                        pos = Some(p - 1);
                    }
                    ctx.eq("prev", "", &it.prev().ok(), &Some(want));
                }
            },
            LexOp::SeekStart => {
                pos = if n == 0 { None } else { Some(0) };
                ctx.eq("seek_start", "", &it.seek_start().ok(), &Some(n > 0));
            }
            LexOp::SeekEnd => {
                pos = if n == 0 { None } else { Some(n - 1) };
                ctx.eq("seek_end", "", &it.seek_end().ok(), &Some(n > 0));
            }
            LexOp::Lower(p) => {
                let t = resolve(p, &sorted);
                let lb = lower_bound(&sorted, &t);
                let exact = lb < n && sorted[lb] == t;
                ctx.label(if exact { "lower_bound_hit" } else { "lower_bound_miss" });
                ctx.eq("seek_lower_bound", "exact_flag", &it.seek_lower_bound(&t).ok(), &Some(exact));
                let want = if lb < n { Some(lb) } else { None };
                let got = actual_position(&mut it);
                ctx.eq("seek_lower_bound", cls, &got, &want);
                pos = got; // resynchronise
            }
            LexOp::Upper(p) => {
                let t = resolve(p, &sorted);
                let ub = upper_bound(&sorted, &t);
                let r = it.seek_upper_bound(&t);
                ctx.ensure("seek_upper_bound", "err", r.is_ok(), || format!("{r:?}"));
                let want = if ub < n { Some(ub) } else { None };
                let got = actual_position(&mut it);
                ctx.eq("seek_upper_bound", cls, &got, &want);
                pos = got;
            }
        }
        ctx.eq("current", "", &it.current().map(|s| s.to_string()), &pos.map(|p| sorted[p].clone()));
        ctx.eq("is_at_end", "", &it.is_at_end(), &pos.is_none());
        ctx.eq("is_at_start", "", &it.is_at_start(), &(pos == Some(0)));
    }
    // full enumeration: every element once, ascending
    use zipora::string::utils::lex_utils;
    match ctx.no_panic("collect_all", || lex_utils::collect_all(SortedVecLexIterator::new(&sorted))) {
        Some(Ok(v)) => {
            ctx.eq("collect_all", cls, &v, &sorted);
        }
        Some(Err(e)) => ctx.fail("collect_all", "err", "", format!("{e}")),
        None => {}
    }
    match ctx.no_panic("collect_all", || lex_utils::collect_all(LexIteratorBuilder::new().optimize_for_memory(true).buffer_size(16).build_sorted_vec(&sorted))) {
        Some(Ok(v)) => {
            ctx.eq("collect_all", "builder", &v, &sorted);
        }
        Some(Err(e)) => ctx.fail("collect_all", "err", "builder", format!("{e}")),
        None => {}
    }
    // manual walk with next()
    {
        let mut it = SortedVecLexIterator::new(&sorted);
        let mut seen = vec![];
        while let Some(s) = it.current() {
            seen.push(s.to_string());
            if seen.len() > n + 2 {
                break;
            }
            if !it.next().unwrap_or(false) {
                break;
            }
        }
        ctx.eq("iter", cls, &seen, &sorted);
        // and backwards from the end
        let mut it = SortedVecLexIterator::new(&sorted);
        let _ = it.seek_end();
        let mut back = vec![];
        while let Some(s) = it.current() {
            back.push(s.to_string());
            if back.len() > n + 2 {
                break;
            }
            if !it.prev().unwrap_or(false) {
                break;
            }
        }
        back.reverse();
        ctx.eq("iter", "backwards", &back, &sorted);
    }
    // common prefix (char-wise) of all strings
    let want_cp: String = match sorted.first() {
        None => String::new(),
        Some(f) => {
            let mut cp: Vec<char> = f.chars().collect();
            for s in &sorted {
                let k = cp.iter().zip(s.chars()).take_while(|(a, b)| **a == *b).count();
                cp.truncate(k);
            }
            cp.into_iter().collect()
        }
    };
    match ctx.no_panic("find_common_prefix", || lex_utils::find_common_prefix(SortedVecLexIterator::new(&sorted))) {
        Some(Ok(v)) => {
            ctx.eq("find_common_prefix", "", &v, &want_cp);
        }
        Some(Err(e)) => ctx.fail("find_common_prefix", "err", "", format!("{e}")),
        None => {}
    }
    for p in probes {
        let mut t = resolve(p, &sorted);
        if p.k & 1 == 1 {
            // a proper prefix of an element
            let cut = t.char_indices().map(|(i, _)| i).nth(1 + (p.k as usize >> 13)).unwrap_or(t.len());
            t.truncate(cut);
        }
        let want = sorted.iter().filter(|s| s.as_bytes().len() >= t.len() && &s.as_bytes()[..t.len()] == t.as_bytes()).count();
        ctx.label(if want > 1 { "prefix_count>1" } else { "prefix_count<=1" });
        match ctx.no_panic("count_with_prefix", || lex_utils::count_with_prefix(SortedVecLexIterator::new(&sorted), &t)) {
            Some(Ok(v)) => {
                ctx.eq("count_with_prefix", cls, &v, &want);
            }
            Some(Err(e)) => ctx.fail("count_with_prefix", "err", "", format!("{e}")),
            None => {}
        }
    }
}

fn run_lex_stream(ctx: &mut Ctx, list: Vec<String>, crlf: &[bool], final_nl: bool, chunks: &[u8], via_builder: bool) {
    let list: Vec<String> = list.into_iter().map(|s| s.replace(['\n', '\r'], "")).collect();
    list_labels(ctx, &list);
    let mut sorted = list.clone();
    sorted.sort_by(|a, b| naive_cmp(a.as_bytes(), b.as_bytes()));
    let n = sorted.len();
    let mut text = String::new();
    for (i, s) in sorted.iter().enumerate() {
        text.push_str(s);
        let last = i + 1 == n;
        if !last || final_nl || s.is_empty() {
            if !crlf.is_empty() && crlf[i % crlf.len()] {
                text.push('\r');
                ctx.label("crlf");
            }
            text.push('\n');
        } else {
            ctx.label("no_final_newline");
        }
    }
    let rd = Chunked { data: text.as_bytes(), pos: 0, chunks, ci: 0 };
    let mut it = if via_builder { LexIteratorBuilder::new().buffer_size(7).build_streaming(rd) } else { StreamingLexIterator::new(rd) };
    ctx.label(if via_builder { "via_builder" } else { "direct" });
    for s in &sorted {
        let cls = if s.is_empty() { "empty_string" } else { "" };
        match ctx.no_panic("next", || it.next()) {
            Some(Ok(r)) => {
                ctx.eq("next", cls, &r, &true);
            }
            Some(Err(e)) => {
                ctx.fail("next", "err", cls, format!("{e}"));
                return;
            }
            None => return,
        }
        ctx.eq("current", cls, &it.current().map(|x| x.to_string()), &Some(s.clone()));
        ctx.eq("is_at_end", cls, &it.is_at_end(), &false);
    }
    if let Some(Ok(r)) = ctx.no_panic("next", || it.next()) {
        ctx.eq("next", "at_end", &r, &false);
    }
    ctx.eq("is_at_end", "at_end", &it.is_at_end(), &true);
    ctx.eq("current", "at_end", &it.current().map(|x| x.to_string()), &None);
    // documented as unsupported
    ctx.ensure("unsupported", "prev", it.prev().is_err(), || "prev() on a streaming iterator succeeded".into());
    ctx.ensure("unsupported", "seek_lower_bound", it.seek_lower_bound("a").is_err(), || "seek on a streaming iterator succeeded".into());
    // collect_all needs seek_start: refused for streams
    use zipora::string::utils::lex_utils;
    let rd = Chunked { data: text.as_bytes(), pos: 0, chunks, ci: 0 };
    match ctx.no_panic("collect_all", || lex_utils::collect_all(StreamingLexIterator::new(rd))) {
        Some(Ok(v)) => {
            ctx.label("collect_all_streaming_ok");
            ctx.eq("collect_all", "", &v, &sorted);
        }
        Some(Err(_)) => ctx.label("collect_all_streaming_refused"),
        None => {}
    }
}

// ---------------------------------------------------------------------------------------
// sorted string vectors
// ---------------------------------------------------------------------------------------

fn check_search(ctx: &mut Ctx, aspect: &str, cls: &str, sorted: &[String], t: &str, got: Result<usize, usize>) {
    let (lb, ub) = (lower_bound(sorted, t), upper_bound(sorted, t));
    match got {
        Ok(i) => {
            ctx.ensure(aspect, cls, i >= lb && i < ub, || format!("binary_search({t:?}) = Ok({i}) but equal elements occupy {lb}..{ub}"));
        }
        Err(i) => {
            ctx.ensure(aspect, cls, lb == ub && i == lb, || format!("binary_search({t:?}) = Err({i}); equal elements occupy {lb}..{ub}, insertion point {lb}"));
        }
    }
}

fn run_sortable(ctx: &mut Ctx, spec: &StrList, sort: u8, probes: &[Probe], extra: Option<String>) {
    let list = spec.materialise();
    ctx.label(format!("shape_{}", spec.shape()));
    list_labels(ctx, &list);
    let maxlen = list.iter().map(|s| s.len()).max().unwrap_or(0);
    let lcls = if maxlen > (1 << 20) - 1 { "len>=2^20" } else { "" };
    // construction: push / push_str / from_iter
    let built = ctx.no_panic("push", || {
        if sort % 2 == 0 {
            let mut v = SortableStrVec::new();
            let mut ids = vec![];
            for (i, s) in list.iter().enumerate() {
                ids.push(if i % 2 == 0 { v.push(s.clone()) } else { v.push_str(s) });
            }
            (v, ids)
        } else {
            match SortableStrVec::from_iter(list.iter()) {
                Ok(v) => (v, vec![]),
                Err(e) => (SortableStrVec::new(), vec![Err(e)]),
            }
        }
    });
    let Some((mut v, ids)) = built else { return };
    if ids.iter().any(|r| r.is_err()) {
        ctx.label("push_refused");
        return;
    }
    for (i, r) in ids.iter().enumerate() {
        if let Ok(id) = r {
            if !ctx.eq("push", "id", id, &i) {
                break;
            }
        }
    }
    ctx.eq("len", "", &v.len(), &list.len());
    let show = |s: Option<&str>| s.map(|x| if x.len() > 64 { format!("<{} bytes, fnv {:x}>", x.len(), crate::engine::fnv(x.as_bytes())) } else { x.to_string() });
    for (i, s) in list.iter().enumerate() {
        if !ctx.eq("get", lcls, &show(v.get(i)), &show(Some(s))) {
            break;
        }
    }
    ctx.eq("get", "out_of_range", &v.get(list.len()).is_none(), &true);
    let it: Vec<Option<String>> = v.iter().map(|s| show(Some(s))).collect();
    ctx.eq("iter", lcls, &it, &list.iter().map(|s| show(Some(s))).collect());
    if !lcls.is_empty() {
        return; // a string beyond the packed 20-bit length: accepted-but-corrupted is reported above, sorting it adds nothing
    }

    let mut sorted = list.clone();
    sorted.sort_by(|a, b| naive_cmp(a.as_bytes(), b.as_bytes()));
    let cls = list_class(&sorted);
    let sort_name = match sort {
        0 => "sort_lexicographic",
        1 => "sort",
        2 => "radix_sort",
        3 => "sort_by_length",
        _ => "sort_by_reverse",
    };
    ctx.label(sort_name);
    let r = ctx.no_panic(sort_name, || match sort {
        0 => v.sort_lexicographic(),
        1 => v.sort(),
        2 => v.radix_sort(),
        3 => v.sort_by_length(),
        _ => v.sort_by(|a, b| b.cmp(a)),
    });
    match r {
        Some(Ok(())) => {}
        Some(Err(e)) => {
            ctx.fail(sort_name, "err", "", format!("{e}"));
            return;
        }
        None => return,
    }
    let got: Vec<String> = v.iter_sorted().map(|s| s.to_string()).collect();
    let same_multiset = {
        let mut g = got.clone();
        g.sort();
        g == sorted
    };
    match sort {
        0 | 1 | 2 => {
            let g: Vec<Option<String>> = got.iter().map(|s| show(Some(s))).collect();
            ctx.eq("iter_sorted", if lcls.is_empty() { cls } else { lcls }, &g, &sorted.iter().map(|s| show(Some(s))).collect());
            for i in 0..sorted.len().min(80) {
                if !ctx.eq("get_sorted", lcls, &show(v.get_sorted(i)), &show(Some(&sorted[i]))) {
                    break;
                }
            }
            ctx.eq("get_sorted", "out_of_range", &v.get_sorted(sorted.len()).is_none(), &true);
            if got == sorted {
                let scls = if sorted.len() > 512 { "block_search" } else { "plain_search" };
                for p in probes {
                    let t = resolve(p, &sorted);
                    if let Some(r) = ctx.no_panic("binary_search", || v.binary_search(&t)) {
                        ctx.label(if r.is_ok() { "search_hit" } else { "search_miss" });
                        check_search(ctx, "binary_search", scls, &sorted, &t, r);
                    }
                }
            }
        }
        3 => {
            ctx.ensure("sort_by_length", "multiset", same_multiset, || format!("got {:?} from {:?}", crate::engine::clip(&format!("{got:?}"), 200), crate::engine::clip(&format!("{list:?}"), 200)));
            ctx.ensure("sort_by_length", "ascending", got.windows(2).all(|w| w[0].len() <= w[1].len()), || format!("not ascending by length: {}", crate::engine::clip(&format!("{got:?}"), 300)));
        }
        _ => {
            let mut want = sorted.clone();
            want.reverse();
            ctx.eq("sort_by", "reverse", &got, &want);
        }
    }
    // insertion order must be untouched by sorting
    if lcls.is_empty() {
        let it: Vec<String> = v.iter().map(|s| s.to_string()).collect();
        ctx.eq("iter", "after_sort", &it, &list);
    }
    // push after a sort, sort again
    if let Some(x) = extra {
        if ctx.no_panic("push", || v.push_str(&x)).map_or(false, |r| r.is_ok()) {
            let mut sorted2 = sorted.clone();
            sorted2.push(x);
            sorted2.sort_by(|a, b| naive_cmp(a.as_bytes(), b.as_bytes()));
            if let Some(Ok(())) = ctx.no_panic("sort_lexicographic", || v.sort_lexicographic()) {
                let got: Vec<Option<String>> = v.iter_sorted().map(|s| show(Some(s))).collect();
                ctx.eq("iter_sorted", if lcls.is_empty() { "after_push_resort" } else { lcls }, &got, &sorted2.iter().map(|s| show(Some(s))).collect());
            }
        }
    }
}

fn run_zo(ctx: &mut Ctx, spec: &StrList, ctor: u8, probes: &[Probe], ranges: &[(Probe, Probe)]) {
    let list = match spec {
        // the huge / deep shapes are SortableStrVec matters
        StrList::Huge { others, .. } => others.clone(),
        StrList::DupLong { copies, len } => StrList::DupLong { copies: *copies, len: (*len).min(300) }.materialise(),
        s => s.materialise(),
    };
    ctx.label(format!("shape_{}", spec.shape()));
    list_labels(ctx, &list);
    let has_nul = list.iter().any(|s| s.contains('\0'));
    if has_nul {
        ctx.label("has_embedded_nul");
    }
    let mut sorted = list.clone();
    sorted.sort_by(|a, b| naive_cmp(a.as_bytes(), b.as_bytes()));
    let cname = ["from_sorted_strings", "from_strings", "from_sortable_str_vec"][ctor as usize % 3];
    ctx.label(cname);
    let built = ctx.no_panic(cname, || match ctor % 3 {
        0 => ZoSortedStrVec::from_sorted_strings(sorted.clone()),
        1 => ZoSortedStrVec::from_strings(list.clone()),
        _ => SortableStrVec::from_iter(list.iter()).and_then(ZoSortedStrVec::from_sortable_str_vec),
    });
    let z = match built {
        Some(Ok(z)) => z,
        Some(Err(_)) => {
            ctx.label("constructor_refused");
            return;
        }
        None => return,
    };
    if ctor % 3 == 1 {
        sorted.dedup(); // documented: from_strings removes duplicates
    }
    let n = sorted.len();
    let cls = if has_nul {
        "embedded_nul"
    } else if has_dups(&sorted) {
        "dups"
    } else {
        "distinct"
    };
    ctx.eq("len", "", &z.len(), &n);
    ctx.eq("len", "is_empty", &z.is_empty(), &(n == 0));
    for i in 0..n {
        if !ctx.eq("get", cls, &z.get(i).map(|s| s.to_string()), &Some(sorted[i].clone())) {
            break;
        }
    }
    ctx.eq("get", "out_of_range", &z.get(n).is_none(), &true);
    if let Some(got) = ctx.no_panic("iter", || z.iter().map(|s| s.to_string()).collect::<Vec<_>>()) {
        ctx.eq("iter", cls, &got, &sorted);
    }
    ctx.eq("iter", "exact_size", &z.iter().len(), &n);
    if has_nul {
        return; // contents already differ; searches would only repeat the finding
    }
    for p in probes {
        let t = resolve(p, &sorted);
        if let Some(r) = ctx.no_panic("binary_search", || z.binary_search(&t)) {
            ctx.label(if r.is_ok() { "search_hit" } else { "search_miss" });
            check_search(ctx, "binary_search", "", &sorted, &t, r);
            ctx.eq("contains", "", &z.contains(&t), &sorted.iter().any(|s| *s == t));
        }
    }
    for (ps, pe) in ranges {
        let (s, e) = (resolve(ps, &sorted), resolve(pe, &sorted));
        let want: Vec<String> = sorted
            .iter()
            .filter(|x| naive_cmp(x.as_bytes(), s.as_bytes()) != Ordering::Less && naive_cmp(x.as_bytes(), e.as_bytes()) == Ordering::Less)
            .cloned()
            .collect();
        ctx.label(if want.is_empty() { "range_empty" } else { "range_nonempty" });
        let dup_bound = (lower_bound(&sorted, &s) + 1 < upper_bound(&sorted, &s)) || (lower_bound(&sorted, &e) + 1 < upper_bound(&sorted, &e));
        let rcls = if dup_bound { "duplicated_bound" } else { "" };
        if let Some(got) = ctx.no_panic("range", || z.range(&s, &e).map(|x| x.to_string()).collect::<Vec<_>>()) {
            ctx.eq("range", rcls, &got, &want);
        }
    }
}

// ---------------------------------------------------------------------------------------
// join
// ---------------------------------------------------------------------------------------

fn run_join(ctx: &mut Ctx, parts: &[String], sep: &str, bparts: &[Bytes], bsep: &[u8], pool: &[u8]) {
    use zipora::string::{join, join_bytes_iter, join_fast_str, join_iter, join_str, JoinBuilder};
    ctx.label(format!("parts_{}", match parts.len() { 0 => "0", 1 => "1", 2 => "2", _ => "3+" }));
    ctx.label(if sep.is_empty() { "sep_empty" } else if sep.len() > 1 { "sep_multibyte" } else { "sep_1byte" });
    if parts.len() >= 2 && parts.iter().any(|p| p.is_empty()) {
        ctx.nontrivial();
    }
    let pcls = match parts.len() {
        0 => "0_parts",
        1 => "1_part",
        _ => "n_parts",
    };
    let refs: Vec<&str> = parts.iter().map(|s| s.as_str()).collect();
    let brefs: Vec<&[u8]> = refs.iter().map(|s| s.as_bytes()).collect();
    let want = String::from_utf8(naive_join(sep.as_bytes(), &brefs)).unwrap();
    if let Some(g) = ctx.no_panic("join_str", || join_str(sep, &refs)) {
        ctx.eq("join_str", pcls, &g, &want);
    }
    let fs: Vec<FastStr<'_>> = refs.iter().map(|s| FastStr::from_string(s)).collect();
    if let Some(g) = ctx.no_panic("join_fast_str", || join_fast_str(sep, &fs)) {
        ctx.eq("join_fast_str", pcls, &g, &want);
    }
    if let Some(g) = ctx.no_panic("join_iter", || join_iter(sep, parts.iter())) {
        ctx.eq("join_iter", pcls, &g, &want);
    }
    if let Some(g) = ctx.no_panic("join_iter", || join_iter(sep, refs.iter().copied())) {
        ctx.eq("join_iter", "str_items", &g, &want);
    }
    if let Some(g) = ctx.no_panic("join_builder", || {
        let mut b = if parts.len() % 2 == 0 { JoinBuilder::new(sep) } else { JoinBuilder::with_capacity(sep, parts.len() / 2) };
        let empty0 = b.is_empty();
        for p in &refs {
            b.push(p);
        }
        let (l, e) = (b.len(), b.is_empty());
        let first = b.build();
        let second = b.build();
        (empty0, l, e, first, second, b.finish())
    }) {
        ctx.eq("join_builder", "initially_empty", &g.0, &true);
        ctx.eq("join_builder", "len", &g.1, &parts.len());
        ctx.eq("join_builder", "is_empty", &g.2, &parts.is_empty());
        ctx.eq("join_builder", pcls, &g.3, &want);
        ctx.eq("join_builder", "build_twice", &g.4, &want);
        ctx.eq("join_builder", "finish", &g.5, &want);
    }
    // byte flavours (any bytes, any separator)
    let bp: Vec<&[u8]> = bparts.iter().map(|b| b.0.as_slice()).collect();
    let bwant = naive_join(bsep, &bp);
    if let Some(g) = ctx.no_panic("join", || join(bsep, &bp)) {
        ctx.eq("join", match bp.len() { 0 => "0_parts", 1 => "1_part", _ => "n_parts" }, &g, &bwant);
    }
    let pp: Vec<&'static [u8]> = pool.iter().map(|i| POOL[*i as usize % POOL.len()]).collect();
    let pwant = naive_join(bsep, &pp);
    if let Some(g) = ctx.no_panic("join_bytes_iter", || join_bytes_iter(bsep, pp.iter().copied())) {
        ctx.eq("join_bytes_iter", "", &g, &pwant);
    }
}

// ---------------------------------------------------------------------------------------
// words
// ---------------------------------------------------------------------------------------

fn run_words(ctx: &mut Ctx, text: &[u8]) {
    use zipora::string::{find_word_boundaries, is_whitespace, is_word_boundary, is_word_char, word_at_position, word_count, words, WordIterator};
    // documented rule: word characters are [a-zA-Z0-9_]
    let isw = |c: u8| (b'a'..=b'z').contains(&c) || (b'A'..=b'Z').contains(&c) || (b'0'..=b'9').contains(&c) || c == b'_';
    let n = text.len();
    // maximal runs of word characters
    let mut runs: Vec<(usize, usize)> = vec![];
    let mut i = 0;
    while i < n {
        if isw(text[i]) {
            let s = i;
            while i < n && isw(text[i]) {
                i += 1;
            }
            runs.push((s, i));
        } else {
            i += 1;
        }
    }
    ctx.label(format!("words_{}", match runs.len() { 0 => "0", 1 => "1", 2..=5 => "2-5", _ => "6+" }));
    if text.iter().any(|&c| c >= 0x80) {
        ctx.label("has_high_bytes");
    }
    if runs.len() >= 2 {
        ctx.nontrivial();
    }
    for c in 0..=255u8 {
        ctx.eq("is_word_char", "", &is_word_char(c), &isw(c));
        ctx.eq("is_whitespace", "", &is_whitespace(c), &matches!(c, b' ' | b'\t' | b'\n' | b'\r' | 0x0c | 0x0b));
    }
    let boundary = |p: usize| p == 0 || p >= n || isw(text[p - 1]) != isw(text[p]);
    for p in 0..=n {
        ctx.eq("is_word_boundary", "", &is_word_boundary(text, p), &boundary(p));
    }
    let want_b: Vec<usize> = (0..=n).filter(|&p| boundary(p)).collect();
    if let Some(g) = ctx.no_panic("find_word_boundaries", || find_word_boundaries(text)) {
        ctx.eq("find_word_boundaries", "", &g, &want_b);
    }
    let want_w: Vec<Vec<u8>> = runs.iter().map(|&(s, e)| text[s..e].to_vec()).collect();
    if let Some(g) = ctx.no_panic("words", || words(text).map(|w| w.to_vec()).collect::<Vec<_>>()) {
        ctx.eq("words", "", &g, &want_w);
    }
    if let Some(g) = ctx.no_panic("words", || WordIterator::new(text).map(|w| w.to_vec()).collect::<Vec<_>>()) {
        ctx.eq("words", "word_iterator", &g, &want_w);
    }
    ctx.eq("word_count", "", &word_count(text), &runs.len());
    for p in 0..=n + 1 {
        let want = runs.iter().copied().find(|&(s, e)| s <= p && p < e);
        ctx.eq("word_at_position", "", &word_at_position(text, p), &want);
    }
}

// ---------------------------------------------------------------------------------------
// lines
// ---------------------------------------------------------------------------------------

fn line_config(preset: u8) -> LineProcessorConfig {
    match preset {
        0 => LineProcessorConfig::default(),
        1 => LineProcessorConfig::performance_optimized(),
        2 => LineProcessorConfig::memory_optimized(),
        3 => LineProcessorConfig::secure(),
        4 => LineProcessorConfig { preserve_line_endings: true, ..LineProcessorConfig::default() },
        _ => LineProcessorConfig { skip_empty_lines: true, ..LineProcessorConfig::default() },
    }
}

fn run_lines(ctx: &mut Ctx, preset: u8, specs: &[LineSpec], final_nl: bool, chunks: &[u8], batch: u8, delim: &str, stop_after: Option<u8>) {
    let cfg = line_config(preset);
    // build the text and, independently, the lines it consists of
    let mut text = String::new();
    let mut raw: Vec<(String, &'static str)> = vec![]; // (content, ending)
    for (i, sp) in specs.iter().enumerate() {
        let content = sp.text.repeat(sp.rep.max(1) as usize);
        let last = i + 1 == specs.len();
        let ending = if last && !final_nl && !content.is_empty() { "" } else if sp.crlf { "\r\n" } else { "\n" };
        text.push_str(&content);
        text.push_str(ending);
        raw.push((content, ending));
    }
    let endings: std::collections::BTreeSet<&str> = raw.iter().map(|r| r.1).collect();
    ctx.label(format!("endings_{}", endings.iter().map(|e| match *e { "" => "none", "\n" => "lf", _ => "crlf" }).collect::<Vec<_>>().join("+")));
    if text.len() > 70_000 {
        ctx.label("text>64KiB");
    } else if text.len() > 17_000 {
        ctx.label("text>16KiB");
    }
    if raw.len() >= 2 && (endings.len() >= 2 || raw.iter().any(|r| r.0.is_empty())) {
        ctx.nontrivial();
    }
    // expected delivered lines under the configuration
    let mut want: Vec<String> = vec![];
    let mut ws_only = false;
    for (content, ending) in &raw {
        let mut l = content.clone();
        if cfg.preserve_line_endings {
            l.push_str(ending);
        }
        if cfg.trim_whitespace {
            l = l.trim().to_string();
        }
        if cfg.skip_empty_lines && l.is_empty() {
            continue;
        }
        if !l.is_empty() && l.trim().is_empty() {
            ws_only = true;
        }
        want.push(l);
    }
    if ws_only {
        ctx.label("has_whitespace_only_line");
    }
    let reader = || Chunked { data: text.as_bytes(), pos: 0, chunks, ci: 0 };
    let mk = || LineProcessor::with_config(reader(), cfg.clone());

    // process_lines (optionally stopping early)
    {
        let mut got: Vec<String> = vec![];
        let stop = stop_after.map(|s| s as usize);
        let r = ctx.no_panic("process_lines", || {
            let mut p = mk();
            p.process_lines(|l| {
                got.push(l.to_string());
                Ok(stop.map_or(true, |s| got.len() <= s))
            })
        });
        match r {
            Some(Ok(cnt)) => match stop {
                Some(s) if s < want.len() => {
                    ctx.label("stopped_early");
                    ctx.eq("process_lines", "stopped_early", &got, &want[..s + 1].to_vec());
                }
                _ => {
                    ctx.eq("process_lines", "", &got, &want);
                    ctx.eq("process_lines", "count", &cnt, &want.len());
                }
            },
            Some(Err(e)) => ctx.fail("process_lines", "err", "", format!("{e}")),
            None => {}
        }
        if preset == 0 && stop.is_none() {
            // LineProcessor::new == default configuration
            let mut got2 = vec![];
            let _ = ctx.no_panic("process_lines", || {
                LineProcessor::new(reader()).process_lines(|l| {
                    got2.push(l.to_string());
                    Ok(true)
                })
            });
            ctx.eq("process_lines", "new", &got2, &want);
        }
    }
    // count_lines == number of lines process_lines delivers
    match ctx.no_panic("count_lines", || mk().count_lines()) {
        Some(Ok(c)) => {
            ctx.eq("count_lines", if ws_only { "whitespace_only_line" } else { "" }, &c, &want.len());
        }
        Some(Err(e)) => ctx.fail("count_lines", "err", "", format!("{e}")),
        None => {}
    }
    // process_batches
    {
        let bs = batch.max(1) as usize;
        let mut batches: Vec<Vec<String>> = vec![];
        match ctx.no_panic("process_batches", || {
            mk().process_batches(bs, |b| {
                batches.push(b.to_vec());
                Ok(true)
            })
        }) {
            Some(Ok(total)) => {
                ctx.eq("process_batches", "total", &total, &want.len());
                let flat: Vec<String> = batches.iter().flatten().cloned().collect();
                ctx.eq("process_batches", "content", &flat, &want);
                let sizes: Vec<usize> = batches.iter().map(|b| b.len()).collect();
                let mut ws: Vec<usize> = vec![bs; want.len() / bs];
                if want.len() % bs != 0 {
                    ws.push(want.len() % bs);
                }
                ctx.eq("process_batches", "sizes", &sizes, &ws);
            }
            Some(Err(e)) => ctx.fail("process_batches", "err", "", format!("{e}")),
            None => {}
        }
    }
    // find_lines
    match ctx.no_panic("find_lines", || mk().find_lines(|l| l.contains('a'))) {
        Some(Ok(found)) => {
            let strings: Vec<String> = found.iter().map(|f| f.1.clone()).collect();
            ctx.eq("find_lines", "", &strings, &want.iter().filter(|l| l.contains('a')).cloned().collect());
            ctx.ensure("find_lines", "numbers_increasing", found.windows(2).all(|w| w[0].0 < w[1].0), || format!("{:?}", found.iter().map(|f| f.0).collect::<Vec<_>>()));
        }
        Some(Err(e)) => ctx.fail("find_lines", "err", "", format!("{e}")),
        None => {}
    }
    // split_lines_by
    {
        let mut fields: Vec<String> = vec![];
        let mut keys: Vec<(usize, usize)> = vec![];
        match ctx.no_panic("split_lines_by", || {
            mk().split_lines_by(delim, |f, ln, fnum| {
                fields.push(f.to_string());
                keys.push((ln, fnum));
                Ok(true)
            })
        }) {
            Some(Ok(total)) => {
                let wf: Vec<String> = want.iter().flat_map(|l| naive_split(l, delim)).collect();
                ctx.eq("split_lines_by", "fields", &fields, &wf);
                ctx.eq("split_lines_by", "total", &total, &wf.len());
                ctx.ensure("split_lines_by", "numbers_increasing", keys.windows(2).all(|w| w[0] < w[1]), || format!("{keys:?}"));
            }
            Some(Err(e)) => ctx.fail("split_lines_by", "err", "", format!("{e}")),
            None => {}
        }
    }
}

fn run_splitter(ctx: &mut Ctx, strategy: u8, lines: &[String], delim: &str) {
    let sname = ["simple", "optimized", "custom"][strategy as usize % 3];
    ctx.label(format!("strategy_{sname}"));
    let mut sp = match strategy % 3 {
        0 => LineSplitter::new(),
        1 => LineSplitter::new().with_optimized_strategy(),
        _ => LineSplitter::default().with_delimiter(delim.to_string()),
    };
    if lines.len() >= 2 {
        ctx.nontrivial();
    }
    // the same splitter is reused: the second result must not contain fields of the first
    for line in lines {
        let want = naive_split(line, delim);
        let trailing_empty = want.last().map_or(false, |l| l.is_empty());
        let cls = format!("{sname}{}", if trailing_empty { ",last_field_empty" } else { "" });
        if trailing_empty {
            ctx.label("last_field_empty");
        }
        if let Some(g) = ctx.no_panic("split", || sp.split(line, delim).to_vec()) {
            ctx.eq("split", &cls, &g, &want);
        }
    }
}

// ---------------------------------------------------------------------------------------
// case conversion and unicode helpers
// ---------------------------------------------------------------------------------------

fn run_case(ctx: &mut Ctx, s: &str) {
    use zipora::string::utils::unicode_utils;
    use zipora::string::{to_lowercase_ascii_bmi2, to_uppercase_ascii_bmi2, Bmi2StringProcessor, UnicodeProcessor};
    let lc = if s.len() >= 8 { "len>=8" } else { "len<8" };
    ctx.label(lc);
    ctx.label(if s.is_ascii() { "ascii" } else { "non_ascii" });
    if s.len() >= 8 && s.bytes().any(|b| b.is_ascii_alphabetic()) {
        ctx.nontrivial();
    }
    // ASCII conversion: only bytes A-Z / a-z change, everything else (incl. UTF-8 sequences) is kept
    let lower: Vec<u8> = s.bytes().map(|b| if (b'A'..=b'Z').contains(&b) { b + 32 } else { b }).collect();
    let upper: Vec<u8> = s.bytes().map(|b| if (b'a'..=b'z').contains(&b) { b - 32 } else { b }).collect();
    let p = Bmi2StringProcessor::new();
    if let Some(g) = ctx.no_panic("to_lowercase_ascii", || p.to_lowercase_ascii_bmi2(s)) {
        ctx.eq("to_lowercase_ascii", lc, &g.into_bytes(), &lower);
    }
    if let Some(g) = ctx.no_panic("to_uppercase_ascii", || p.to_uppercase_ascii_bmi2(s)) {
        ctx.eq("to_uppercase_ascii", lc, &g.into_bytes(), &upper);
    }
    if let Some(g) = ctx.no_panic("to_lowercase_ascii", || to_lowercase_ascii_bmi2(s)) {
        ctx.eq("to_lowercase_ascii", "global", &g.into_bytes(), &lower);
    }
    if let Some(g) = ctx.no_panic("to_uppercase_ascii", || to_uppercase_ascii_bmi2(s)) {
        ctx.eq("to_uppercase_ascii", "global", &g.into_bytes(), &upper);
    }
    // Unicode conversion: per-char mapping (no capital sigma in the input)
    if !s.contains('Σ') {
        let ul: String = s.chars().flat_map(|c| c.to_lowercase()).collect();
        let uu: String = s.chars().flat_map(|c| c.to_uppercase()).collect();
        ctx.eq("to_lowercase_unicode", "", &unicode_utils::to_lowercase_unicode(s), &ul);
        ctx.eq("to_uppercase_unicode", "", &unicode_utils::to_uppercase_unicode(s), &uu);
        if s.is_ascii() {
            ctx.eq("to_lowercase_unicode", "ascii", &unicode_utils::to_lowercase_unicode(s).into_bytes(), &lower);
            ctx.eq("to_uppercase_unicode", "ascii", &unicode_utils::to_uppercase_unicode(s).into_bytes(), &upper);
        }
        if let Some(Ok(g)) = ctx.no_panic("case_folding", || UnicodeProcessor::new().with_case_folding(true).process(s)) {
            ctx.eq("case_folding", "", &g, &ul);
        }
    }
    if let Some(Ok(g)) = ctx.no_panic("process_identity", || UnicodeProcessor::new().process(s)) {
        ctx.eq("process_identity", "", &g, &s.to_string());
    }
}

fn run_unicode(ctx: &mut Ctx, b: &[u8]) {
    use zipora::string::utils::unicode_utils;
    use zipora::string::{utf8_byte_count, validate_utf8_and_count_chars, Utf8ToUtf32Iterator};
    let valid = std::str::from_utf8(b).ok();
    ctx.label(if valid.is_some() { "valid_utf8" } else { "invalid_utf8" });
    ctx.label(if b.len() >= 32 { "len>=32" } else { "len<32" });
    if b.len() >= 32 || b.iter().any(|&x| x >= 0x80) {
        ctx.nontrivial();
    }
    let lc = if b.len() >= 32 { "len>=32" } else { "len<32" };
    match ctx.no_panic("validate_and_count", || validate_utf8_and_count_chars(b)) {
        Some(Ok(n)) => match valid {
            Some(s) => {
                ctx.eq("validate_and_count", lc, &n, &s.chars().count());
            }
            None => ctx.fail("validate_and_count", "mismatch", "accepts_invalid", format!("Ok({n}) for invalid UTF-8 {:?}", Bytes(b.to_vec()))),
        },
        Some(Err(_)) => {
            ctx.ensure("validate_and_count", "rejects_valid", valid.is_none(), || format!("Err for valid UTF-8 {:?}", Bytes(b.to_vec())));
        }
        None => {}
    }
    for &x in b.iter().take(16) {
        let want = if x < 0x80 { 1 } else if x < 0xC0 { 0 } else if x < 0xE0 { 2 } else if x < 0xF0 { 3 } else if x < 0xF8 { 4 } else { 0 };
        ctx.eq("utf8_byte_count", "", &utf8_byte_count(x), &want);
    }
    match (Utf8ToUtf32Iterator::new(b), valid) {
        (Ok(mut it), Some(s)) => {
            let chars: Vec<char> = s.chars().collect();
            let mut fwd = vec![];
            while let Some(c) = it.next_char() {
                fwd.push(c);
                if fwd.len() > chars.len() + 1 {
                    break;
                }
            }
            ctx.eq("utf32_iter", "forward", &fwd, &chars);
            ctx.eq("utf32_iter", "position_at_end", &it.byte_position(), &b.len());
            let mut back = vec![];
            while let Some(c) = it.prev_char() {
                back.push(c);
                if back.len() > chars.len() + 1 {
                    break;
                }
            }
            back.reverse();
            ctx.eq("utf32_iter", "backward", &back, &chars);
            ctx.eq("extract_codepoints", "", &unicode_utils::extract_codepoints(s), &chars.iter().map(|c| *c as u32).collect());
        }
        (Ok(_), None) => ctx.fail("utf32_iter", "mismatch", "accepts_invalid", "Utf8ToUtf32Iterator::new accepted invalid UTF-8".to_string()),
        (Err(_), Some(_)) => ctx.fail("utf32_iter", "err", "rejects_valid", "Utf8ToUtf32Iterator::new rejected valid UTF-8".to_string()),
        (Err(_), None) => {}
    }
}
