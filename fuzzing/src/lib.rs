// anchor crate for cargo-fuzz; the targets live in ./fuzz
