//! C13 (second engine): coverage-guided round-trip / exact-consumption oracle for the varint
//! family.  The fuzzer bytes are decoded into (strategy selector, values) with `arbitrary`;
//! the semantic oracle is inside the target, so a crash artefact is a property violation.
#![no_main]
use arbitrary::Unstructured;
use libfuzzer_sys::fuzz_target;
use zipora::io::{SignedVarInt, VarInt, VarIntEncoder, VarIntStrategy};

const STRATS: [VarIntStrategy; 7] = [
    VarIntStrategy::Leb128,
    VarIntStrategy::Zigzag,
    VarIntStrategy::Delta,
    VarIntStrategy::GroupVarint,
    VarIntStrategy::PrefixFree,
    VarIntStrategy::Compact,
    VarIntStrategy::Simd,
];

fn widen(u: &mut Unstructured, small: bool) -> u64 {
    let v: u64 = u.arbitrary().unwrap_or(0);
    if small {
        v >> (u.int_in_range(0..=63u32).unwrap_or(0))
    } else {
        v
    }
}

fuzz_target!(|data: &[u8]| {
    let mut u = Unstructured::new(data);
    let sel: u8 = u.arbitrary().unwrap_or(0);
    let n = u.int_in_range(0..=40usize).unwrap_or(0);
    let vals: Vec<u64> = (0..n).map(|i| widen(&mut u, i % 3 != 0)).collect();

    // scalar varint: round trip, exact consumption, concatenation law, batch == scalar bytes
    let mut cat = vec![];
    for &v in &vals {
        let e = VarInt::encode(v);
        assert_eq!(VarInt::encoded_len(v), e.len());
        assert_eq!(VarInt::decode(&e).unwrap(), (v, e.len()));
        let s = v as i64;
        let es = <VarInt as SignedVarInt>::encode_signed(s);
        assert_eq!(<VarInt as SignedVarInt>::decode_signed(&es).unwrap(), (s, es.len()));
        cat.extend_from_slice(&e);
    }
    let mut pos = 0;
    for &v in &vals {
        let (d, k) = VarInt::decode(&cat[pos..]).unwrap();
        assert_eq!(d, v);
        pos += k;
    }
    assert_eq!(pos, cat.len());
    let batch = zipora::io::simd_encoding::varint::encode_varint_batch(&vals).unwrap();
    assert_eq!(batch, cat, "SIMD batch bytes differ from scalar");
    assert_eq!(zipora::io::simd_encoding::varint::decode_varint_batch(&batch, vals.len()).unwrap(), vals);

    // strategies: whenever encode succeeds, decode returns the same values
    let enc = VarIntEncoder::new(STRATS[sel as usize % STRATS.len()]);
    if let Ok(b) = enc.encode_u64_sequence(&vals) {
        assert_eq!(enc.decode_u64_sequence(&b).expect("decode of fresh encoding"), vals);
    }
    let ivals: Vec<i64> = vals.iter().map(|v| *v as i64).collect();
    if let Ok(b) = enc.encode_i64_sequence(&ivals) {
        assert_eq!(enc.decode_i64_sequence(&b).expect("decode of fresh encoding"), ivals);
    }
    for &v in vals.iter().take(6) {
        if let Ok(b) = enc.encode_u64(v) {
            assert_eq!(enc.decode_u64(&b).expect("decode single"), (v, b.len()));
        }
        if let Ok(b) = enc.encode_i64(v as i64) {
            assert_eq!(enc.decode_i64(&b).expect("decode single"), (v as i64, b.len()));
        }
    }
});
