//! C02 (second engine): coverage-guided decompress(compress(x)) == x through CompressorFactory.
#![no_main]
use libfuzzer_sys::fuzz_target;
use std::panic::{catch_unwind, AssertUnwindSafe};
use zipora::compression::{Algorithm, CompressorFactory};

static HOOK: std::sync::Once = std::sync::Once::new();

/// An oracle failure: print and abort so libFuzzer saves the input.
fn violation(msg: &str) -> ! {
    eprintln!("C-PROPERTY-VIOLATION: {msg}");
    std::process::abort()
}

fuzz_target!(|data: &[u8]| {
    // libfuzzer-sys aborts inside its panic hook; replace it so that panics on the ENCODER side
    // (refusals by panic, tolerated by the statement) can be caught. Decoder-side panics and
    // mismatches call `violation`, which aborts explicitly.
    HOOK.call_once(|| std::panic::set_hook(Box::new(|_| {})));

    if data.len() < 2 {
        return;
    }
    let algo = match data[0] % 8 {
        0 => Algorithm::None,
        1 => Algorithm::Lz4,
        2 => Algorithm::Zstd(1 + (data[1] % 9) as i32),
        3 => Algorithm::Huffman,
        4 => Algorithm::Rans,
        5 => Algorithm::Dictionary,
        6 => Algorithm::Hybrid,
        _ => Algorithm::Zstd(3),
    };
    let body = &data[2..];
    let body = if matches!(algo, Algorithm::Dictionary | Algorithm::Hybrid) { &body[..body.len().min(700)] } else { body };
    let train = if data[1] & 0x80 != 0 { body } else { &body[..body.len() / 2] };
    let Ok(Ok(c)) = catch_unwind(AssertUnwindSafe(|| CompressorFactory::create(algo, Some(train)))) else { return };
    let Ok(Ok(z)) = catch_unwind(AssertUnwindSafe(|| c.compress(body))) else { return };
    match catch_unwind(AssertUnwindSafe(|| c.decompress(&z))) {
        Ok(Ok(out)) if out == body => {}
        Ok(Ok(out)) => violation(&format!("{:?}: decompressed {} bytes differ from the {} byte input", algo, out.len(), body.len())),
        Ok(Err(e)) => violation(&format!("{:?}: decompress of fresh output failed: {e}", algo)),
        Err(_) => violation(&format!("{:?}: decompress panicked", algo)),
    }
});
