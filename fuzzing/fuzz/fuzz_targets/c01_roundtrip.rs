//! C01 (second engine): coverage-guided lossless round trip for the entropy codecs.
//! Bytes -> (codec selector, training split, payload).  Oracle inside the target: if the model can
//! be built and encode returns Ok, decode must return exactly the payload.  Encoder-side Err is a
//! refusal (allowed by the statement); an encoder-side panic is tolerated the same way (catch_unwind),
//! a decode-side panic / Err / different bytes aborts = violation.
#![no_main]
use libfuzzer_sys::fuzz_target;
use std::panic::{catch_unwind, AssertUnwindSafe};
use zipora::entropy::huffman::InterleavingFactor;
use zipora::entropy::rans::{ParallelVariant, ParallelX1, ParallelX2, ParallelX4, ParallelX8, Rans64Decoder, Rans64Encoder};
use zipora::entropy::{
    fse_compress, fse_decompress, ContextualHuffmanEncoder, DictionaryBuilder, DictionaryCompressor, HuffmanDecoder, HuffmanEncoder,
    HuffmanOrder, OptimizedDictionaryCompressor,
};

fn quiet<R>(f: impl FnOnce() -> R) -> Option<R> {
    catch_unwind(AssertUnwindSafe(f)).ok()
}

/// decode side: a panic, an Err or different bytes is a violation
fn must_decode(what: &str, payload: &[u8], f: impl FnOnce() -> zipora::Result<Vec<u8>>) {
    match catch_unwind(AssertUnwindSafe(f)) {
        Ok(Ok(out)) if out == payload => {}
        Ok(Ok(out)) => violation(&format!("{what}: decoded {} bytes differ from the {} byte payload", out.len(), payload.len())),
        Ok(Err(e)) => violation(&format!("{what}: decode of a fresh encoding failed: {e}")),
        Err(_) => violation(&format!("{what}: decode panicked")),
    }
}

fn rans<V: ParallelVariant>(train: &[u8], payload: &[u8]) {
    let mut f = [0u32; 256];
    for b in train {
        f[*b as usize] += 1;
    }
    let Some(Ok(enc)) = quiet(|| Rans64Encoder::<V>::new(&f)) else { return };
    let Some(Ok(bytes)) = quiet(|| enc.encode(payload)) else { return };
    must_decode("rans", payload, || Rans64Decoder::<V>::new(&enc).decode(&bytes, payload.len()));
}

static HOOK: std::sync::Once = std::sync::Once::new();

/// An oracle failure: print and abort so libFuzzer saves the input.
fn violation(msg: &str) -> ! {
    eprintln!("C-PROPERTY-VIOLATION: {msg}");
    std::process::abort()
}

fuzz_target!(|data: &[u8]| {
    // libfuzzer-sys aborts inside its panic hook; replace it so that panics on the ENCODER side
    // (refusals by panic, tolerated by the statement) can be caught. Decoder-side panics and
    // mismatches call `violation`, which aborts explicitly.
    HOOK.call_once(|| std::panic::set_hook(Box::new(|_| {})));

    if data.len() < 3 {
        return;
    }
    let sel = data[0] % 14;
    let split = data[1] as usize;
    let body = &data[2..];
    // training = payload (split >= 128) or a prefix / the other part of the body
    let cut = if body.is_empty() { 0 } else { (split * body.len()) / 256 };
    let (train, payload): (&[u8], &[u8]) = if split >= 128 { (body, body) } else if split % 2 == 0 { (&body[..cut], body) } else { (&body[..cut], &body[cut..]) };
    match sel {
        0 => {
            let Some(Ok(enc)) = quiet(|| HuffmanEncoder::new(train)) else { return };
            let Some(Ok(bytes)) = quiet(|| enc.encode(payload)) else { return };
            must_decode("huffman", payload, || HuffmanDecoder::new(enc.tree().clone()).decode(&bytes, payload.len()));
        }
        1..=3 => {
            let order = [HuffmanOrder::Order0, HuffmanOrder::Order1, HuffmanOrder::Order2][sel as usize - 1];
            let Some(Ok(enc)) = quiet(|| ContextualHuffmanEncoder::new(train, order)) else { return };
            let Some(Ok(bytes)) = quiet(|| enc.encode(payload)) else { return };
            must_decode("contextual huffman", payload, || zipora::entropy::ContextualHuffmanDecoder::new(enc).decode(&bytes, payload.len()));
        }
        4..=7 => {
            let f = [InterleavingFactor::X1, InterleavingFactor::X2, InterleavingFactor::X4, InterleavingFactor::X8][sel as usize - 4];
            let Some(Ok(enc)) = quiet(|| ContextualHuffmanEncoder::new(train, HuffmanOrder::Order1)) else { return };
            let Some(Ok(bytes)) = quiet(|| enc.encode_with_interleaving(payload, f)) else { return };
            must_decode("interleaved", payload, || enc.decode_with_interleaving(&bytes, payload.len(), f));
        }
        8 => rans::<ParallelX1>(train, payload),
        9 => rans::<ParallelX2>(train, payload),
        10 => rans::<ParallelX4>(train, payload),
        11 => rans::<ParallelX8>(train, payload),
        12 => {
            let Some(Ok(bytes)) = quiet(|| fse_compress(payload)) else { return };
            must_decode("fse", payload, || fse_decompress(&bytes));
        }
        _ => {
            // LZ-style dictionary coders are quadratic: keep them small
            let payload = &payload[..payload.len().min(600)];
            let train = &train[..train.len().min(300)];
            if data[1] & 4 == 0 {
                let Some(dict) = quiet(|| DictionaryBuilder::new().build(train)) else { return };
                let c = DictionaryCompressor::new(dict);
                let Some(Ok(bytes)) = quiet(|| c.compress(payload)) else { return };
                must_decode("dictionary", payload, || c.decompress(&bytes));
            } else {
                let Some(Ok(c)) = quiet(|| OptimizedDictionaryCompressor::new(train)) else { return };
                let Some(Ok(bytes)) = quiet(|| c.compress(payload)) else { return };
                must_decode("optimized dictionary", payload, || c.decompress(&bytes));
            }
        }
    }
});
