//! C15 (second engine): every byte parser returns Ok or Err for every input -- no panic, abort,
//! stack overflow, out-of-bounds access, hang or length-field-sized allocation.
//!
//! data[0] % N_SELECTORS = parser, data[1] = aux (variant / expected-length choice), data[2..] =
//! parser input (see c15_common.rs for the selector table).  Parser calls are NOT wrapped in
//! catch_unwind: libfuzzer-sys aborts on any panic, which is the violation signal.
#![no_main]
use libfuzzer_sys::fuzz_target;

#[path = "../support/c15_common.rs"]
mod common;

/// ======================= KNOWN_SKIP =======================
/// (selector, aux predicate) pairs of genuine library defects already found by this target and
/// recorded in /verif/known_findings.json; skipped so that the campaign can continue past them.
/// `None` = every aux value of the selector.
const KNOWN_SKIP: &[(u8, Option<fn(u8) -> bool>)] = &[];
/// ==========================================================

fn skipped(sel: u8, aux: u8) -> bool {
    KNOWN_SKIP.iter().any(|(s, p)| *s == sel && p.map_or(true, |p| p(aux)))
}

fuzz_target!(|data: &[u8]| {
    if data.len() < 2 || data.len() > 4096 {
        return;
    }
    let sel = data[0] % common::N_SELECTORS;
    let aux = data[1];
    if skipped(sel, aux) {
        return;
    }
    common::run(sel, aux, &data[2..]);
});
