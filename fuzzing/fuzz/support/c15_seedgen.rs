//! Seed corpus generator for c15_parse: `c15_seedgen <dir>` writes one file per valid encoding
//! (selector byte + aux byte + bytes produced by the matching zipora encoder) and replays each
//! seed through the target's `run` once (sanity: a valid encoding must not crash its parser).
#[path = "c15_common.rs"]
mod common;

/// `c15_seedgen --bench <corpus dir>`: time `run` per selector over a corpus (finds slow selectors).
fn bench(dir: &str) {
    let n = common::N_SELECTORS as usize;
    let mut tot = vec![(0usize, std::time::Duration::ZERO, std::time::Duration::ZERO, String::new()); n];
    for e in std::fs::read_dir(dir).expect("read dir") {
        let p = e.expect("entry").path();
        let d = std::fs::read(&p).expect("read");
        if d.len() < 2 || d.len() > 4096 {
            continue;
        }
        let sel = d[0] % common::N_SELECTORS;
        let t = std::time::Instant::now();
        common::run(sel, d[1], &d[2..]);
        let dt = t.elapsed();
        let r = &mut tot[sel as usize];
        r.0 += 1;
        r.1 += dt;
        if dt > r.2 {
            r.2 = dt;
            r.3 = p.display().to_string();
        }
    }
    for (i, r) in tot.iter().enumerate() {
        println!("{:2} {:22} n={:5} total={:9.3}ms mean={:8.1}us max={:9.1}us {}", i, common::SELECTORS[i], r.0, r.1.as_secs_f64() * 1e3, r.1.as_secs_f64() * 1e6 / r.0.max(1) as f64, r.2.as_secs_f64() * 1e6, r.3);
    }
}

fn main() {
    if std::env::args().nth(1).as_deref() == Some("--bench") {
        return bench(&std::env::args().nth(2).expect("corpus dir"));
    }
    let dir = std::env::args().nth(1).unwrap_or_else(|| "/verif/fuzzing/seeds/c15_parse".into());
    std::fs::create_dir_all(&dir).expect("create seed dir");
    let seeds = common::seeds();
    let mut per_sel = vec![0usize; common::N_SELECTORS as usize];
    for (k, (sel, aux, body)) in seeds.iter().enumerate() {
        let mut f = vec![*sel, *aux];
        f.extend_from_slice(body);
        f.truncate(4096);
        let name = format!("{}/s{:02}_{}_a{:03}_{:03}", dir, sel, common::SELECTORS[*sel as usize], aux, k);
        std::fs::write(&name, &f).expect("write seed");
        per_sel[*sel as usize] += 1;
        common::run(*sel, *aux, &f[2..]);
    }
    for (i, n) in per_sel.iter().enumerate() {
        println!("selector {:2} {:22} {} seeds", i, common::SELECTORS[i], n);
    }
    println!("{} seeds written to {}", seeds.len(), dir);
}
