//! C15 shared code: the selector table of byte-parsing entry points (`run`) and, for the seed
//! generator, one valid encoding per selector / variant (`seeds`).
//!
//! Input layout of the fuzz target: `data[0] % N_SELECTORS` = parser, `data[1]` = aux (variant and
//! expected-length choice), `data[2..]` = parser input.  Parsers that take an expected output
//! length read a little-endian u16 base length from the first two bytes of the rest.
#![allow(dead_code)]

use std::collections::{BTreeMap, BTreeSet, HashMap, HashSet};
use std::sync::{Arc, OnceLock};

use zipora::blob_store::{BlobStore, ZReorderMap, ZReorderMapBuilder, ZipOffsetBlobStore, ZipOffsetBlobStoreBuilder};
use zipora::compression::dict_zip::{
    decode_match, decode_matches, encode_matches, BitReader, DfaCache, DfaCacheConfig, DictionaryBuilder as PzDictBuilder, DictionaryBuilderConfig, Match,
    SuffixArrayDictionary,
};
use zipora::compression::{AdaptiveCompressor, Algorithm, Compressor, CompressorFactory, PerformanceRequirements};
use zipora::entropy::dictionary::Dictionary;
use zipora::entropy::rans::{ParallelX1, ParallelX2, ParallelX4, ParallelX8, Rans64Decoder, Rans64Encoder};
use zipora::entropy::{ContextualHuffmanDecoder, ContextualHuffmanEncoder, DictionaryBuilder, HuffmanDecoder, HuffmanEncoder, HuffmanOrder, HuffmanTree};
use zipora::io::simd_encoding::varint::{decode_varint, decode_varint_batch, SimdVarintCodec};
use zipora::io::{
    ComplexSerialize, ComplexTypeConfig, ComplexTypeSerializer, DataInput, DataOutput, DeserializationContext, ReaderDataInput, SerializableType,
    SerializationContext, SignedVarInt, SliceDataInput, SmartPtrConfig, SmartPtrSerialize, SmartPtrSerializer, VarInt, VarIntEncoder, VarIntStrategy, VecDataOutput, Version,
    VersionConfig, VersionManager, VersionProxy, VersionedSerialize, VersionedSerializer,
};
use zipora::memory::{MmapVec, MmapVecConfig};
use zipora::string::{hex_decode, hex_decode_bytes, hex_decode_to_slice, hex_encode, hex_encode_upper};
use zipora::system::base64::{Base64Config, SimdImplementation};
use zipora::system::{base64_decode_simd, AdaptiveBase64, SimdBase64Decoder};

pub const FIXED_TEXT: &[u8] = b"the quick brown fox jumps over the lazy dog; zipora zipora zipora 0123456789 abababababab the quick brown fox";

/// Selector names, index = `data[0] % N_SELECTORS`.
pub const SELECTORS: &[&str] = &[
    "huff_tree_deser",      // 0
    "huff_decode",          // 1
    "ctx_huff_deser",       // 2
    "ctx_decode",           // 3
    "il_decode",            // 4
    "dict_deser",           // 5
    "compressor",           // 6  factory None / Lz4 / Zstd / Huffman / SimdLz77 (trait stub format)
    "adaptive_decompress",  // 7  pinned to Lz4 / Zstd / None
    "pazip_decode_matches", // 8
    "sa_dict_deser",        // 9
    "dfa_cache_deser",      // 10
    "zipoffset_load",       // 11
    "varint_decode",        // 12
    "varint_strategy",      // 13
    "simd_varint_batch",    // 14
    "data_input",           // 15
    "complex",              // 16
    "smart_ptr",            // 17
    "versioned",            // 18
    "hex",                  // 19
    "base64",               // 20
    "reorder_map_open",     // 21 (file)
    "mmap_vec_open",        // 22 (file)
    "rans_decode_bounded",  // 23 Rans64Decoder::decode with a caller length <= 1 MiB
    "reorder_map_entries",  // 24 (file) decision tape -> well-formed entry grammar
];
pub const N_SELECTORS: u8 = 25;

// ---------------------------------------------------------------------------------------
// helpers
// ---------------------------------------------------------------------------------------

/// Deterministic text of `len` bytes: words of the fixed text picked by an LCG.
pub fn gen_text(len: usize, seed: u64) -> Vec<u8> {
    let words: Vec<&[u8]> = FIXED_TEXT.split(|b| *b == b' ').collect();
    let mut s = seed.wrapping_mul(0x9E37_79B9_7F4A_7C15) | 1;
    let mut out = Vec::with_capacity(len + 16);
    while out.len() < len {
        s = s.wrapping_mul(6364136223846793005).wrapping_add(1442695040888963407);
        out.extend_from_slice(words[(s >> 33) as usize % words.len()]);
        out.push(b' ');
    }
    out.truncate(len);
    out
}

/// Split off the u16 base length; returns (n_base, rest).
fn split_len(body: &[u8]) -> (usize, &[u8]) {
    if body.len() < 2 {
        return (0, &[]);
    }
    (u16::from_le_bytes([body[0], body[1]]) as usize, &body[2..])
}

/// Expected-length argument: input-derived small values, 0, 1 or 1 MiB.  Never larger.
fn len_arg(choice: u8, n_base: usize, rest_len: usize) -> usize {
    match choice % 8 {
        0 => n_base,
        1 => 0,
        2 => 1,
        3 => 1 << 20,
        4 => rest_len,
        5 => rest_len * 8,
        6 => n_base + 1,
        _ => n_base.saturating_sub(1),
    }
}

/// Deterministic sub-sampling of the three intrinsically slow paths (measured under ASan):
/// the interleaved order-1 decoders rebuild a 257 x 4096-entry decode table on every call
/// (~70 ms), and zstd's wrapper reserves a fixed 100 MiB output buffer per call (~13 ms).  Only
/// inputs whose FNV-1a hash is 0 mod `THROTTLE` take those paths, so that they do not eat the
/// whole campaign; every other path runs on every input.
pub const THROTTLE: u64 = 8;

pub fn slow_path_admitted(body: &[u8]) -> bool {
    let mut h: u64 = 0xcbf29ce484222325;
    for &b in body {
        h = (h ^ b as u64).wrapping_mul(0x100000001b3);
    }
    (h >> 7) % THROTTLE == 0
}

fn with_len(n: usize, enc: &[u8]) -> Vec<u8> {
    let mut v = (n.min(65535) as u16).to_le_bytes().to_vec();
    v.extend_from_slice(enc);
    v
}

fn u64s(p: &[u8]) -> Vec<u64> {
    p.chunks(8)
        .map(|c| {
            let mut b = [0u8; 8];
            b[..c.len()].copy_from_slice(c);
            u64::from_le_bytes(b) >> ((c[0] as u32 * 7) % 64)
        })
        .collect()
}

fn lossy(b: &[u8]) -> String {
    String::from_utf8_lossy(b).into_owned()
}

fn hist(p: &[u8]) -> [u32; 256] {
    let mut f = [0u32; 256];
    for &b in p {
        f[b as usize] += 1;
    }
    f
}

fn strs(p: &[u8]) -> Vec<String> {
    p.chunks(5).map(|c| c.iter().map(|b| (b'a' + b % 26) as char).collect()).collect()
}

fn order_of(o: u8) -> HuffmanOrder {
    match o % 3 {
        0 => HuffmanOrder::Order0,
        1 => HuffmanOrder::Order1,
        _ => HuffmanOrder::Order2,
    }
}

fn scratch(name: &str) -> Option<std::path::PathBuf> {
    // file-backed parsers need a real file: $VERIF_ROOT/run/fuzz-scratch (set by bin/fuzz_tier)
    let root = std::env::var("VERIF_ROOT").unwrap_or_else(|_| "/verif".to_string());
    let dir = std::path::Path::new(&root).join("run").join("fuzz-scratch");
    let dir = dir.as_path();
    std::fs::create_dir_all(dir).ok()?;
    Some(dir.join(format!("{}-{}", std::process::id(), name)))
}

// ---------------------------------------------------------------------------------------
// fixed objects (built once from FIXED_TEXT; never mutated afterwards)
// ---------------------------------------------------------------------------------------

fn fixed_huff_tree() -> &'static HuffmanTree {
    static T: OnceLock<HuffmanTree> = OnceLock::new();
    T.get_or_init(|| HuffmanEncoder::new(FIXED_TEXT).expect("fixed text trains").tree().clone())
}

fn fixed_ctx_bytes(order: u8) -> &'static Vec<u8> {
    static M: [OnceLock<Vec<u8>>; 3] = [OnceLock::new(), OnceLock::new(), OnceLock::new()];
    M[(order % 3) as usize].get_or_init(|| ContextualHuffmanEncoder::new(FIXED_TEXT, order_of(order)).expect("fixed text trains").serialize())
}

// The contextual encoder / decoder types are not necessarily `Sync`: they are built once per
// thread (libFuzzer drives the target from one thread) and never mutated afterwards.
thread_local! {
    static CTX_DEC: [std::cell::OnceCell<ContextualHuffmanDecoder>; 3] = const { [std::cell::OnceCell::new(), std::cell::OnceCell::new(), std::cell::OnceCell::new()] };
    static CTX_ENC1: std::cell::OnceCell<ContextualHuffmanEncoder> = const { std::cell::OnceCell::new() };
}

fn with_ctx_decoder<R>(order: u8, f: impl FnOnce(&ContextualHuffmanDecoder) -> R) -> R {
    CTX_DEC.with(|cells| {
        let d = cells[(order % 3) as usize]
            .get_or_init(|| ContextualHuffmanDecoder::new(ContextualHuffmanEncoder::new(FIXED_TEXT, order_of(order)).expect("fixed text trains")));
        f(d)
    })
}

fn with_ctx_order1<R>(f: impl FnOnce(&ContextualHuffmanEncoder) -> R) -> R {
    CTX_ENC1.with(|c| f(c.get_or_init(|| ContextualHuffmanEncoder::new(FIXED_TEXT, HuffmanOrder::Order1).expect("fixed text trains"))))
}

fn factory(which: u8) -> &'static dyn Compressor {
    static C: [OnceLock<Box<dyn Compressor>>; 5] = [OnceLock::new(), OnceLock::new(), OnceLock::new(), OnceLock::new(), OnceLock::new()];
    let i = (which % 5) as usize;
    C[i].get_or_init(|| {
        let a = match i {
            0 => Algorithm::None,
            1 => Algorithm::Lz4,
            2 => Algorithm::Zstd(3),
            3 => Algorithm::Huffman,
            // the `Compressor` trait impl of SimdLz77Compressor is a length-prefixed stub format,
            // not the (excluded) inherent LZ77 decompressor
            _ => Algorithm::SimdLz77,
        };
        CompressorFactory::create(a, Some(FIXED_TEXT)).expect("factory creates from fixed text")
    })
    .as_ref()
}

fn adaptive_alg(which: u8) -> Algorithm {
    match which % 3 {
        0 => Algorithm::Lz4,
        1 => Algorithm::Zstd(3),
        _ => Algorithm::None,
    }
}

thread_local! {
    static ADAPTIVE: [std::cell::OnceCell<Option<AdaptiveCompressor>>; 3] = const { [std::cell::OnceCell::new(), std::cell::OnceCell::new(), std::cell::OnceCell::new()] };
}

fn with_adaptive<R>(which: u8, f: impl FnOnce(&AdaptiveCompressor) -> R) -> Option<R> {
    ADAPTIVE.with(|cells| {
        let a = cells[(which % 3) as usize].get_or_init(|| {
            let mut a = AdaptiveCompressor::default_with_requirements(PerformanceRequirements::default()).ok()?;
            a.set_algorithm(adaptive_alg(which)).ok()?;
            Some(a)
        });
        a.as_ref().map(f)
    })
}

fn rans_freqs() -> [u32; 256] {
    hist(FIXED_TEXT)
}

const STRATS: &[VarIntStrategy] = &[
    VarIntStrategy::Leb128,
    VarIntStrategy::Zigzag,
    VarIntStrategy::Delta,
    VarIntStrategy::GroupVarint,
    VarIntStrategy::PrefixFree,
    VarIntStrategy::Compact,
    VarIntStrategy::Simd,
];

fn cx_config(aux: u8) -> ComplexTypeConfig {
    match aux % 5 {
        0 => ComplexTypeConfig::new(),
        1 => ComplexTypeConfig::safe(),
        2 => ComplexTypeConfig::fast(),
        3 => ComplexTypeConfig::compact(),
        _ => ComplexTypeConfig::compatible(),
    }
}

fn sp_config(k: u8) -> SmartPtrConfig {
    match k % 4 {
        0 => SmartPtrConfig::new(),
        1 => SmartPtrConfig::performance_optimized(),
        2 => SmartPtrConfig::space_optimized(),
        _ => SmartPtrConfig::robust(),
    }
}

fn b64_config(aux: u8) -> Base64Config {
    Base64Config {
        url_safe: aux & 1 == 1,
        padding: aux & 2 == 0,
        force_implementation: if aux & 4 == 0 { None } else { Some(SimdImplementation::Scalar) },
    }
}

/// A record with one always-present and two versioned fields.
pub struct Rec {
    id: u64,
    name: String,
    tags: Vec<u32>,
}

impl VersionedSerialize for Rec {
    fn current_version() -> Version {
        Version::new(1, 2, 0)
    }
    fn serialize_with_manager<O: DataOutput>(&self, m: &mut VersionManager, o: &mut O) -> zipora::Result<()> {
        m.register_field("name", Version::new(1, 1, 0));
        m.register_field("tags", Version::new(1, 2, 0));
        SerializableType::serialize(&self.id, o)?;
        m.serialize_field("name", &self.name, o)?;
        m.serialize_field("tags", &self.tags, o)
    }
    fn deserialize_with_manager<I: DataInput>(m: &mut VersionManager, i: &mut I) -> zipora::Result<Self> {
        m.register_field("name", Version::new(1, 1, 0));
        m.register_field("tags", Version::new(1, 2, 0));
        let id = <u64 as SerializableType>::deserialize(i)?;
        let name = m.deserialize_field::<String, _>("name", i)?.unwrap_or_default();
        let tags = m.deserialize_field::<Vec<u32>, _>("tags", i)?.unwrap_or_default();
        Ok(Rec { id, name, tags })
    }
}

fn versioned_config(which: u8) -> VersionConfig {
    match which {
        1 => VersionConfig::strict(),
        2 => VersionConfig::flexible(),
        3 => VersionConfig::development(),
        _ => VersionConfig::new(),
    }
}

// ---------------------------------------------------------------------------------------
// the parsers
// ---------------------------------------------------------------------------------------

/// Run one parser.  Every call below must return (Ok or Err); a panic aborts the process.
pub fn run(sel: u8, aux: u8, body: &[u8]) {
    match sel {
        // ---- Huffman tree deserialiser, then the accepted tree used the way
        //      HuffmanCompressor::decompress uses it (bounded expected length)
        0 => {
            if let Ok(t) = HuffmanTree::deserialize(body) {
                let dec = HuffmanDecoder::new(t);
                let n = len_arg(aux, body.len(), body.len()).min(1 << 16);
                let _ = dec.decode(body, n);
                let _ = dec.decode(FIXED_TEXT, 64);
            }
        }
        // ---- Huffman decoder with a fixed tree
        1 => {
            let (nb, rest) = split_len(body);
            let dec = HuffmanDecoder::new(fixed_huff_tree().clone());
            let _ = dec.decode(rest, len_arg(aux, nb, rest.len()));
        }
        // ---- contextual model deserialiser + use
        2 => {
            if let Ok(e2) = ContextualHuffmanEncoder::deserialize(body) {
                if !slow_path_admitted(body) {
                    return;
                }
                let data: &[u8] = if aux & 0x40 == 0 { FIXED_TEXT } else { body };
                let n = if aux & 0x80 == 0 { 40 } else { len_arg(aux >> 3, data.len(), data.len()).min(1 << 16) };
                if aux & 1 == 1 && e2.order() == HuffmanOrder::Order1 {
                    let _ = match (aux >> 1) % 4 {
                        0 => e2.decode_x1(data, n),
                        1 => e2.decode_x2(data, n),
                        2 => e2.decode_x4(data, n),
                        _ => e2.decode_x8(data, n),
                    };
                } else {
                    let dec = ContextualHuffmanDecoder::new(e2);
                    let _ = dec.decode(data, n);
                }
            }
        }
        // ---- contextual decoders (order 0/1/2) with a fixed model
        3 => {
            let (nb, rest) = split_len(body);
            let n = len_arg(aux >> 4, nb, rest.len());
            with_ctx_decoder(aux % 3, |d| {
                let _ = d.decode(rest, n);
            });
        }
        // ---- interleaved order-1 decoders x1/x2/x4/x8 with a fixed model
        4 => {
            if !slow_path_admitted(body) {
                return;
            }
            let (nb, rest) = split_len(body);
            let n = len_arg(aux >> 4, nb, rest.len());
            with_ctx_order1(|e| {
                let _ = match aux % 4 {
                    0 => e.decode_x1(rest, n),
                    1 => e.decode_x2(rest, n),
                    2 => e.decode_x4(rest, n),
                    _ => e.decode_x8(rest, n),
                };
            });
        }
        // ---- LZ dictionary deserialiser (the decompressor itself is a known exclusion)
        5 => {
            if let Ok(d) = Dictionary::deserialize(body) {
                let _ = (d.len(), d.is_empty(), d.get(b"the").is_some());
            }
        }
        // ---- compressor factory: aux % 5 = None / Lz4 / Zstd / Huffman / SimdLz77 (trait stub)
        6 => {
            if aux % 5 == 2 && !slow_path_admitted(body) {
                return;
            }
            let _ = factory(aux).decompress(body);
        }
        // ---- adaptive compressor pinned to Lz4 / Zstd / None
        7 => {
            if aux % 3 == 1 && !slow_path_admitted(body) {
                return;
            }
            let _ = with_adaptive(aux, |a| a.decompress(body).map(|v| v.len()));
        }
        // ---- PA-Zip match-stream decoders
        8 => {
            if aux % 2 == 0 {
                let _ = decode_matches(body);
            } else {
                let mut rd = BitReader::new(body);
                let mut k = 0usize;
                while rd.has_bits(3) && k < 100_000 {
                    if decode_match(&mut rd).is_err() {
                        break;
                    }
                    k += 1;
                }
            }
        }
        // ---- suffix-array dictionary deserialiser + use
        9 => {
            if let Ok(mut d) = SuffixArrayDictionary::deserialize(body) {
                let _ = d.validate();
                let _ = d.find_longest_match(FIXED_TEXT, 4, 32);
            }
        }
        // ---- DFA cache deserialiser + use
        10 => {
            if let Ok(mut d) = DfaCache::deserialize(body) {
                let _ = d.validate();
                let _ = d.state_count();
                let _ = d.find_longest_prefix(FIXED_TEXT, 16);
            }
        }
        // ---- blob store loader + use
        11 => {
            let loaded = if aux % 4 == 3 {
                let Some(path) = scratch("zipoffset.bin") else { return };
                if std::fs::write(&path, body).is_err() {
                    return;
                }
                let r = ZipOffsetBlobStore::load_from_file(&path);
                let _ = std::fs::remove_file(&path);
                r
            } else {
                ZipOffsetBlobStore::load_from_reader(&mut &body[..])
            };
            if let Ok(store) = loaded {
                let n = store.len();
                let _ = store.get(0).map(|v| v.len());
                let _ = store.get(n.saturating_sub(1) as _).map(|v| v.len());
                let _ = store.get((n / 2) as _).map(|v| v.len());
                let _ = store.memory_usage();
            }
        }
        // ---- plain varints
        12 => {
            let _ = match aux % 5 {
                0 => VarInt::decode(body).map(|(v, n)| v ^ n as u64),
                1 => VarInt::decode_multiple(body).map(|v| v.len() as u64),
                2 => VarInt::decode_signed(body).map(|(v, n)| v as u64 ^ n as u64),
                3 => SliceDataInput::new(body).read_var_int(),
                _ => ReaderDataInput::new(body).read_var_int(),
            };
        }
        // ---- varint strategies
        13 => {
            let e = VarIntEncoder::new(STRATS[(aux % 7) as usize]);
            let _ = match (aux / 7) % 4 {
                0 => e.decode_u64(body).map(|(_, n)| n),
                1 => e.decode_i64(body).map(|(_, n)| n),
                2 => e.decode_u64_sequence(body).map(|v| v.len()),
                _ => e.decode_i64_sequence(body).map(|v| v.len()),
            };
        }
        // ---- SIMD varint codec
        14 => {
            let codec = SimdVarintCodec::new();
            match aux % 4 {
                0 | 1 => {
                    let (nb, rest) = split_len(body);
                    let n = len_arg(aux >> 4, nb, rest.len());
                    let _ = if aux % 4 == 0 { codec.decode_batch(rest, n).map(|v| v.len()) } else { decode_varint_batch(rest, n).map(|v| v.len()) };
                }
                2 => {
                    let _ = codec.decode_single(body);
                }
                _ => {
                    let _ = decode_varint(body);
                }
            }
        }
        // ---- DataInput length-prefixed reads (slice and reader back ends)
        15 => {
            fn drive<I: DataInput>(i: &mut I, which: u8, n: usize) -> zipora::Result<usize> {
                Ok(match which {
                    0 => i.read_length_prefixed_bytes()?.len(),
                    1 => i.read_length_prefixed_string()?.len(),
                    2 => i.read_vec(n)?.len(),
                    3 => i.read_string(n)?.len(),
                    4 => {
                        i.skip(n)?;
                        i.read_u8().map(|b| b as usize).unwrap_or(0)
                    }
                    _ => {
                        let a = i.read_u32()? as usize;
                        let b = i.read_length_prefixed_bytes()?.len();
                        let v = i.read_var_int()? as usize;
                        let d = i.read_u64()? as usize;
                        a ^ b ^ v ^ d
                    }
                })
            }
            let which = aux % 6;
            let reader = (aux / 6) % 2 == 1;
            let (n, input) = if matches!(which, 2 | 3 | 4) {
                let (nb, rest) = split_len(body);
                (len_arg(aux / 12, nb, rest.len()), rest)
            } else {
                (0, body)
            };
            let _ = if reader { drive(&mut ReaderDataInput::new(input), which, n) } else { drive(&mut SliceDataInput::new(input), which, n) };
        }
        // ---- complex types: aux % 5 = config preset, (aux / 5) % 10 = type
        16 => {
            let ser = ComplexTypeSerializer::new(cx_config(aux));
            match (aux / 5) % 10 {
                0 => drop(ser.deserialize_from_bytes::<(u32, String, Vec<u16>)>(body)),
                1 => drop(ser.deserialize_from_bytes::<[u32; 4]>(body)),
                2 => drop(ser.deserialize_from_bytes::<Option<String>>(body)),
                3 => drop(ser.deserialize_from_bytes::<std::result::Result<u64, String>>(body)),
                4 => drop(ser.deserialize_from_bytes::<HashMap<u32, String>>(body)),
                5 => drop(ser.deserialize_from_bytes::<HashSet<i64>>(body)),
                6 => drop(ser.deserialize_from_bytes::<BTreeMap<String, Vec<u64>>>(body)),
                7 => drop(ser.deserialize_from_bytes::<BTreeSet<u16>>(body)),
                8 => drop(ser.deserialize_from_bytes::<Option<Vec<Option<u32>>>>(body)),
                _ => drop(ser.deserialize_batch::<(u32, String)>(body)),
            }
        }
        // ---- smart pointers: aux % 8 = type, (aux / 8) % 4 = config preset
        17 => {
            use std::rc::Rc;
            let ser = SmartPtrSerializer::new(sp_config(aux / 8));
            fn st<T: SerializableType>(b: &[u8]) {
                let mut i = SliceDataInput::new(b);
                let _ = <T as SerializableType>::deserialize(&mut i);
            }
            match aux % 8 {
                0 => drop(ser.deserialize_from_bytes::<String, Box<String>>(body)),
                1 => drop(ser.deserialize_from_bytes::<Vec<u64>, Rc<Vec<u64>>>(body)),
                2 => drop(ser.deserialize_from_bytes::<String, Arc<String>>(body)),
                3 => drop(ser.deserialize_from_bytes::<u32, Option<Box<u32>>>(body)),
                4 => st::<Vec<String>>(body),
                5 => st::<Vec<Vec<u64>>>(body),
                6 => st::<Box<Vec<Box<u32>>>>(body),
                _ => {
                    let mut i = SliceDataInput::new(body);
                    let mut dc: DeserializationContext<Rc<String>> = DeserializationContext::new();
                    if <Rc<String> as SmartPtrSerialize<String>>::deserialize_with_context(&mut i, &mut dc).is_ok() {
                        let _ = <Rc<String> as SmartPtrSerialize<String>>::deserialize_with_context(&mut i, &mut dc);
                    }
                }
            }
        }
        // ---- versioned records
        18 => {
            let which = aux % 7;
            match which {
                0..=3 => {
                    let vs = VersionedSerializer::new(versioned_config(which));
                    let _ = vs.deserialize_from_bytes::<Rec>(body);
                }
                4 => {
                    let mut i = SliceDataInput::new(body);
                    if <Version as SerializableType>::deserialize(&mut i).is_ok() {
                        let _ = Rec::deserialize_versioned(&mut i);
                    }
                }
                5 => {
                    let mut i = SliceDataInput::new(body);
                    let _ = <VersionProxy<String> as SerializableType>::deserialize(&mut i);
                }
                _ => {
                    let mut i = SliceDataInput::new(body);
                    let m = VersionManager::new(Version::new(1, 2, 0));
                    let _ = m.deserialize_proxy::<Vec<u32>, _>(Version::new(1, 0, 0), &mut i);
                }
            }
        }
        // ---- hex
        19 => match aux % 3 {
            0 => drop(hex_decode(&lossy(body))),
            1 => drop(hex_decode_bytes(body)),
            _ => {
                // output buffer: exact, one short, empty, generous
                let half = body.len() / 2;
                let cap = match (aux / 3) % 4 {
                    0 => half,
                    1 => half.saturating_sub(1),
                    2 => 0,
                    _ => 8192,
                };
                let mut out = vec![0u8; cap];
                let _ = hex_decode_to_slice(body, &mut out);
            }
        },
        // ---- Base64: aux & 7 = config bits, (aux >> 3) % 6 = implementation
        20 => {
            let cfg = b64_config(aux);
            let s = lossy(body);
            match (aux >> 3) % 6 {
                0 => drop(AdaptiveBase64::with_config(cfg).decode(&s)),
                1 => drop(SimdBase64Decoder::new().decode(&s)),
                2 => drop(SimdBase64Decoder::with_config(cfg).decode(&s)),
                3 => drop(base64_decode_simd(&s)),
                4 => drop(zipora::io::simd_encoding::base64::decode_base64(&s)),
                _ => {
                    let full = body.len() / 4 * 3 + 3;
                    let cap = match aux & 3 {
                        0 => full,
                        1 => full.saturating_sub(4),
                        2 => 0,
                        _ => 8192,
                    };
                    let mut out = vec![0u8; cap];
                    let _ = zipora::io::simd_encoding::base64::decode_base64_from_buffer(body, &mut out);
                }
            }
        }
        // ---- reorder map file reader (bounded iteration: the format is run-length coded)
        21 => {
            let Some(path) = scratch("reorder.map") else { return };
            if std::fs::write(&path, body).is_err() {
                return;
            }
            if let Ok(mut m) = ZReorderMap::open(&path) {
                let mut k = 0usize;
                while k < 5000 {
                    if m.next().is_none() {
                        break;
                    }
                    k += 1;
                }
                let _ = m.size();
                let _ = m.rewind();
                let _ = m.eof();
            }
            let _ = std::fs::remove_file(&path);
        }
        // ---- memory-mapped vector file loader
        22 => {
            let Some(path) = scratch("mmapvec.bin") else { return };
            if std::fs::write(&path, body).is_err() {
                return;
            }
            let cfg = if aux % 2 == 0 { MmapVecConfig::read_only() } else { MmapVecConfig::default() };
            if let Ok(v) = MmapVec::<u64>::open(&path, cfg) {
                let n = v.len();
                let _ = v.get(0).copied();
                let _ = v.get(n.saturating_sub(1)).copied();
                let _ = v.get(n / 2).copied();
                let _ = v.as_slice().last().copied();
                let _ = v.capacity();
            }
            let _ = std::fs::remove_file(&path);
        }
        // ---- rANS decoders with a fixed model and a caller length <= 1 MiB (the known finding
        //      is the unbounded caller / header length, which cannot occur here)
        23 => {
            let (nb, rest) = split_len(body);
            let n = len_arg(aux >> 4, nb, rest.len());
            fn go<V: zipora::entropy::rans::ParallelVariant>(rest: &[u8], n: usize) {
                static F: OnceLock<[u32; 256]> = OnceLock::new();
                let f = F.get_or_init(rans_freqs);
                if let Ok(e) = Rans64Encoder::<V>::new(f) {
                    let d = Rans64Decoder::<V>::new(&e);
                    let _ = d.decode(rest, n);
                }
            }
            match aux % 4 {
                0 => go::<ParallelX1>(rest, n),
                1 => go::<ParallelX2>(rest, n),
                2 => go::<ParallelX4>(rest, n),
                _ => go::<ParallelX8>(rest, n),
            }
        }
        // ---- reorder map reader fed with well-formed entries built from a decision tape
        24 => {
            let Some(path) = scratch("reorder-entries.map") else { return };
            let mut tape = vec![aux];
            tape.extend_from_slice(&body[..body.len().min(120)]);
            if std::fs::write(&path, reorder_map_from_tape(&tape)).is_err() {
                return;
            }
            if let Ok(mut m) = ZReorderMap::open(&path) {
                let mut k = 0usize;
                while k < 5000 {
                    if m.next().is_none() {
                        break;
                    }
                    k += 1;
                }
                let _ = m.size();
                let _ = m.rewind();
                let _ = m.eof();
            }
            let _ = std::fs::remove_file(&path);
        }
        _ => {}
    }
}

/// Structure-aware inputs for the reorder-map reader: a header and a list of well-formed entries
/// (single values and (value, var_uint length) sequences with lengths 0, 1, small, 127/128,
/// non-canonical zero, huge) whose announced size is the sum of all entries, of all but the
/// first, of all but the last, off by one, zero or far too large.
fn reorder_map_from_tape(t: &[u8]) -> Vec<u8> {
    fn var_uint(out: &mut Vec<u8>, mut v: u64) {
        loop {
            let b = (v & 0x7f) as u8;
            v >>= 7;
            if v == 0 {
                out.push(b);
                break;
            }
            out.push(b | 0x80);
        }
    }
    let t0 = t.first().copied().unwrap_or(0);
    let sign: i64 = if t0 & 1 == 0 { 1 } else { -1 };
    let mut body = vec![];
    let mut lens: Vec<u64> = vec![];
    for e in t.get(1..).unwrap_or(&[]).chunks(3) {
        let (k, v, l) = (e[0], *e.get(1).unwrap_or(&0), *e.get(2).unwrap_or(&1));
        let value: u64 = if k & 0x80 != 0 { (1u64 << 39) - 1 - v as u64 } else { 1000 + v as u64 * 300 };
        if k % 4 == 0 {
            body.extend_from_slice(&((value << 1) | 1).to_le_bytes()[..5]);
            lens.push(1);
            continue;
        }
        body.extend_from_slice(&(value << 1).to_le_bytes()[..5]);
        let len: u64 = match l % 8 {
            0 => 0,
            1 => 1,
            2 => 2,
            3 => (l >> 3) as u64,
            4 => 127,
            5 => 128,
            6 => 300,
            _ => 1 << 35,
        };
        if len == 0 && k & 0x20 != 0 {
            body.extend_from_slice(&[0x80, 0x00]); // non-canonical zero
        } else {
            var_uint(&mut body, len);
        }
        lens.push(len);
    }
    let sum = |x: &[u64]| x.iter().fold(0u64, |a, b| a.saturating_add(*b));
    let all = sum(&lens);
    let size = match (t0 >> 1) % 8 {
        0 | 1 => all,
        2 => sum(lens.get(1..).unwrap_or(&[])),
        3 => sum(&lens[..lens.len().saturating_sub(1)]),
        4 => all.saturating_add(1),
        5 => all.saturating_sub(1),
        6 => 0,
        _ => all.saturating_add(1 << 40),
    };
    let mut out = size.to_le_bytes().to_vec();
    out.extend_from_slice(&sign.to_le_bytes());
    out.extend_from_slice(&body);
    if t0 & 0x80 != 0 && t0 & 0x40 != 0 {
        let cut = 1 + (t0 as usize >> 4) % 3;
        out.truncate(out.len().saturating_sub(cut).max(16));
    }
    out
}

// ---------------------------------------------------------------------------------------
// valid encodings (seed corpus)
// ---------------------------------------------------------------------------------------

fn matches_from(p: &[u8]) -> Vec<Match> {
    let mut v = vec![];
    for w in p.chunks(4) {
        let a = w[0];
        let b = *w.get(1).unwrap_or(&3);
        let d = *w.get(2).unwrap_or(&7) as u32;
        let e = *w.get(3).unwrap_or(&1) as u32;
        let m = match a % 8 {
            0 => Match::literal(1 + b % 32),
            1 => Match::global(d << 8 | e, 6 + b as u16),
            2 => Match::rle(b, 2 + (d % 32) as u8),
            3 => Match::near_short(2 + b % 8, 2 + (d % 4) as u8),
            4 => Match::far1_short(2 + b as u16, 2 + (d % 32) as u8),
            5 => Match::far2_short(258 + (d << 8 | e), 2 + b % 32),
            6 => Match::far2_long((d << 8 | e) as u16, 34 + b as u16 * 3),
            _ => Match::far3_long(d << 16 | e << 8 | b as u32, 34 + (d * 300 + e)),
        };
        if let Ok(m) = m {
            v.push(m);
        }
    }
    v
}

fn st_bytes<T: SerializableType>(v: &T) -> Option<Vec<u8>> {
    let mut o = VecDataOutput::new();
    SerializableType::serialize(v, &mut o).ok()?;
    Some(o.into_vec())
}

fn cx_bytes<T: ComplexSerialize>(aux: u8, v: &T) -> Option<Vec<u8>> {
    ComplexTypeSerializer::new(cx_config(aux)).serialize_to_bytes(v).ok()
}

/// (selector, aux, valid body) triples; encoders that refuse are skipped.
pub fn seeds() -> Vec<(u8, u8, Vec<u8>)> {
    use std::rc::Rc;
    let text: &[u8] = b"zipora zipora the quick brown fox abababab 0123";
    let t = text.len();
    let mut out: Vec<(u8, u8, Vec<u8>)> = vec![];
    let mut push = |s: u8, a: u8, b: Option<Vec<u8>>| {
        if let Some(b) = b {
            out.push((s, a, b));
        }
    };

    // 0 huff tree
    push(0, 0, HuffmanTree::from_data(text).ok().map(|t| t.serialize()));
    push(0, 4, HuffmanTree::from_data(b"aaaaaaaabbbbccd").ok().map(|t| t.serialize()));
    // 1 huff decode with the fixed tree
    let he = HuffmanEncoder::new(FIXED_TEXT).expect("fixed text trains");
    push(1, 0, he.encode(text).ok().map(|e| with_len(t, &e)));
    push(1, 4, he.encode(b"the lazy dog").ok().map(|e| with_len(12, &e)));
    // 2 contextual model
    // (order-1/2 models of longer texts exceed the 4096-byte input limit)
    push(2, 0, ContextualHuffmanEncoder::new(text, HuffmanOrder::Order0).ok().map(|e| e.serialize()));
    for (aux, o) in [(0u8, 0u8), (0x40, 0), (1, 1), (0x43, 1), (0, 2)] {
        // the first short training text whose model fits and is admitted by the sub-sampling
        let b = (0..300u64).find_map(|k| {
            let train = gen_text(if o == 0 { 30 } else { 6 } + k as usize % 5, 70 + k);
            ContextualHuffmanEncoder::new(&train, order_of(o)).ok().map(|e| e.serialize()).filter(|b| b.len() <= 4094 && slow_path_admitted(b))
        });
        push(2, aux, b);
    }
    // 3 contextual decode
    for o in 0..3u8 {
        let e = ContextualHuffmanEncoder::new(FIXED_TEXT, order_of(o)).expect("fixed text trains");
        push(3, o, e.encode(b"the quick brown fox jumps").ok().map(|b| with_len(25, &b)));
    }
    // 4 interleaved decode
    let e1 = ContextualHuffmanEncoder::new(FIXED_TEXT, HuffmanOrder::Order1).expect("fixed text trains");
    let msg: &[u8] = b"the quick brown fox jumps over the lazy dog";
    for ways in 0..4u8 {
        // the first message whose encoding is admitted by the slow-path sub-sampling
        let b = (0..200u64).find_map(|k| {
            let m = gen_text(30 + k as usize % 40, 40 + k);
            let e = match ways {
                0 => e1.encode_x1(&m),
                1 => e1.encode_x2(&m),
                2 => e1.encode_x4(&m),
                _ => e1.encode_x8(&m),
            }
            .ok()?;
            Some(with_len(m.len(), &e)).filter(|b| slow_path_admitted(b))
        });
        push(4, ways, b);
    }
    // 5 LZ dictionary
    push(5, 0, Some(DictionaryBuilder::new().min_match_length(3).max_match_length(16).max_entries(24).build(FIXED_TEXT).serialize()));
    // 6 factory
    for w in [0u8, 1, 3, 4] {
        push(6, w, factory(w).compress(text).ok());
    }
    for len in [40usize, 600] {
        push(6, 2, (0..200u64).find_map(|k| factory(2).compress(&gen_text(len, k)).ok().filter(|b| slow_path_admitted(b))));
    }
    push(6, 1, factory(1).compress(&gen_text(600, 4)).ok());
    // 7 adaptive
    for w in 0..3u8 {
        push(7, w, (0..200u64).find_map(|k| {
            CompressorFactory::create(adaptive_alg(w), None).ok().and_then(|c| c.compress(&gen_text(48, k)).ok()).filter(|b| w != 1 || slow_path_admitted(b))
        }));
    }
    // 8 PA-Zip matches
    let ms = matches_from(&gen_text(64, 8));
    push(8, 0, encode_matches(&ms).ok().map(|(b, _)| b));
    push(8, 1, encode_matches(&ms[..ms.len().min(5)]).ok().map(|(b, _)| b));
    // 9 suffix-array dictionary
    let sa = PzDictBuilder::with_config(DictionaryBuilderConfig::default()).build(&gen_text(200, 0xD1C7)).ok();
    push(9, 0, sa.and_then(|d| d.serialize().ok()));
    // 10 DFA cache
    let dfa = zipora::algorithms::suffix_array::SuffixArray::new(FIXED_TEXT)
        .ok()
        .and_then(|sa| DfaCache::build_from_suffix_array(&sa, FIXED_TEXT, &DfaCacheConfig::default(), 2, 4).ok())
        .and_then(|d| d.serialize().ok());
    push(10, 0, dfa);
    // 11 blob store
    for (a, chunk) in [(0u8, 7usize), (1, 3), (3, 5)] {
        let b = (|| -> zipora::Result<Vec<u8>> {
            let mut b = ZipOffsetBlobStoreBuilder::new()?;
            for rec in text.chunks(chunk) {
                b.add_record(rec)?;
            }
            let store = b.finish()?;
            let mut o = Vec::new();
            store.save_to_writer(&mut o)?;
            Ok(o)
        })();
        push(11, a, b.ok());
    }
    // 12 varints
    let vals = u64s(text);
    push(12, 0, Some(VarInt::encode(vals[0])));
    push(12, 1, Some(VarInt::encode_multiple(vals.iter().copied())));
    push(12, 2, Some(VarInt::encode_signed(-(vals[1] as i64 >> 1))));
    push(12, 3, Some(VarInt::encode(u64::MAX)));
    push(12, 4, Some(VarInt::encode(300)));
    // 13 strategies
    for si in 0..7u8 {
        let e = VarIntEncoder::new(STRATS[si as usize]);
        let mut u = vals.clone();
        if si == 3 {
            u.iter_mut().for_each(|x| *x &= 0xFFFF_FFFF);
        }
        if si == 2 {
            u.sort_unstable();
        }
        let i: Vec<i64> = u.iter().map(|x| (*x as i64).wrapping_mul(if x & 1 == 0 { 1 } else { -1 })).collect();
        push(13, si, e.encode_u64(u[0]).ok());
        push(13, si + 7, e.encode_i64(i[0]).ok());
        push(13, si + 14, e.encode_u64_sequence(&u).ok());
        push(13, si + 21, e.encode_i64_sequence(&i).ok());
    }
    // 14 SIMD varint
    let codec = SimdVarintCodec::new();
    push(14, 0, codec.encode_batch(&vals).ok().map(|b| with_len(vals.len(), &b)));
    push(14, 1, codec.encode_batch(&vals).ok().map(|b| with_len(vals.len(), &b)));
    push(14, 2, codec.encode_batch(&vals[..1]).ok());
    push(14, 3, codec.encode_batch(&[u64::MAX]).ok());
    // 15 DataInput
    for which in 0..6u8 {
        let b = (|| -> zipora::Result<Vec<u8>> {
            let mut o = VecDataOutput::new();
            match which {
                0 | 2 | 4 => o.write_length_prefixed_bytes(text)?,
                1 | 3 => o.write_length_prefixed_string(&lossy(text))?,
                _ => {
                    o.write_u32(t as u32)?;
                    o.write_length_prefixed_bytes(text)?;
                    o.write_var_int(t as u64)?;
                    o.write_u64(7)?;
                }
            }
            Ok(o.into_vec())
        })()
        .ok();
        let b = if matches!(which, 2 | 3 | 4) { b.map(|b| with_len(t.min(b.len()), &b)) } else { b };
        push(15, which, b.clone());
        push(15, which + 6, b);
    }
    // 16 complex types
    let s = strs(text);
    let a = vals[0];
    for cfg in 0..5u8 {
        push(16, cfg, cx_bytes(cfg, &(a as u32, s[0].clone(), vals.iter().map(|x| *x as u16).collect::<Vec<u16>>())));
    }
    push(16, 5, cx_bytes(0, &[a as u32, (a >> 8) as u32, (a >> 16) as u32, (a >> 32) as u32]));
    push(16, 10, cx_bytes(0, &Some(s.join("-"))));
    push(16, 15, cx_bytes::<std::result::Result<u64, String>>(0, &Err(s.join("+"))));
    push(16, 20, cx_bytes(0, &vals.iter().zip(s.iter()).map(|(k, v)| (*k as u32, v.clone())).collect::<HashMap<u32, String>>()));
    push(16, 25, cx_bytes(0, &vals.iter().map(|x| *x as i64).collect::<HashSet<i64>>()));
    push(16, 30, cx_bytes(0, &s.iter().enumerate().map(|(i, k)| (k.clone(), vals.iter().skip(i).take(3).copied().collect::<Vec<u64>>())).collect::<BTreeMap<String, Vec<u64>>>()));
    push(16, 35, cx_bytes(0, &vals.iter().map(|x| *x as u16).collect::<BTreeSet<u16>>()));
    push(16, 40, cx_bytes(0, &Some(vals.iter().map(|x| if x % 3 == 0 { None } else { Some(*x as u32) }).collect::<Vec<Option<u32>>>())));
    let items: Vec<(u32, String)> = vals.iter().zip(s.iter()).map(|(k, v)| (*k as u32, v.clone())).collect();
    push(16, 45, ComplexTypeSerializer::new(cx_config(0)).serialize_batch(&items).ok());
    // 17 smart pointers
    for cfg in 0..4u8 {
        let ser = SmartPtrSerializer::new(sp_config(cfg));
        push(17, cfg * 8, ser.serialize_to_bytes::<String, Box<String>>(&Box::new(s.join(" "))).ok());
    }
    let ser = SmartPtrSerializer::new(sp_config(0));
    push(17, 1, ser.serialize_to_bytes::<Vec<u64>, Rc<Vec<u64>>>(&Rc::new(vals.clone())).ok());
    push(17, 2, ser.serialize_to_bytes::<String, Arc<String>>(&Arc::new(s.join(","))).ok());
    push(17, 3, ser.serialize_to_bytes::<u32, Option<Box<u32>>>(&Some(Box::new(a as u32))).ok());
    push(17, 4, st_bytes(&s));
    push(17, 5, st_bytes(&vec![vals.clone(), vec![], vals.clone()]));
    push(17, 6, st_bytes(&Box::new(vec![Box::new(a as u32), Box::new(7u32)])));
    push(17, 7, {
        let rc = Rc::new(s.join("/"));
        let mut sc = SerializationContext::new();
        let mut o = VecDataOutput::new();
        let r1 = rc.serialize_with_context(&mut o, &mut sc);
        let r2 = rc.serialize_with_context(&mut o, &mut sc);
        if r1.is_ok() && r2.is_ok() {
            Some(o.into_vec())
        } else {
            None
        }
    });
    // 18 versioned
    let rec = Rec { id: a, name: s.join("."), tags: vals.iter().map(|x| *x as u32).collect() };
    for which in 0..4u8 {
        push(18, which, VersionedSerializer::new(versioned_config(which)).serialize_to_bytes(&rec).ok());
    }
    push(18, 4, {
        let mut o = VecDataOutput::new();
        let r1 = SerializableType::serialize(&Rec::current_version(), &mut o);
        let r2 = rec.serialize_versioned(&mut o);
        if r1.is_ok() && r2.is_ok() {
            Some(o.into_vec())
        } else {
            None
        }
    });
    push(18, 5, st_bytes(&VersionProxy::new(rec.name.clone(), Version::new(1, 0, 0))));
    push(18, 6, {
        let mut o = VecDataOutput::new();
        let m = VersionManager::new(Version::new(1, 2, 0));
        m.serialize_proxy(&VersionProxy::new(rec.tags.clone(), Version::new(1, 0, 0)), &mut o).ok().map(|_| o.into_vec())
    });
    // 19 hex
    push(19, 0, Some(hex_encode(text).into_bytes()));
    push(19, 1, Some(hex_encode_upper(text).into_bytes()));
    push(19, 2, Some(hex_encode(text).into_bytes()));
    push(19, 11, Some(hex_encode(&text[..9]).into_bytes()));
    // 20 Base64
    for imp in 0..6u8 {
        for cfgb in [0u8, 3] {
            let aux = imp << 3 | cfgb;
            let enc = if imp == 0 || imp == 2 { AdaptiveBase64::with_config(b64_config(aux)).encode(text) } else { zipora::system::base64_encode_simd(text) };
            push(20, aux, Some(enc.into_bytes()));
        }
    }
    // 21 reorder map
    for (aux, sign) in [(0u8, 1i64), (1, -1)] {
        let b = (|| -> Option<Vec<u8>> {
            let path = scratch("seed-reorder.map")?;
            let mut vals: Vec<usize> = vec![];
            for w in text.chunks(2) {
                let base = 1000 + (w[0] as usize) * 300;
                let run = 1 + (*w.get(1).unwrap_or(&0) as usize % 9);
                for k in 0..run {
                    vals.push(if sign > 0 { base + k } else { base + 20 - k });
                }
            }
            let mut b = ZReorderMapBuilder::new(&path, vals.len(), sign).ok()?;
            for v in &vals {
                b.push(*v).ok()?;
            }
            b.finish().ok()?;
            let r = std::fs::read(&path).ok();
            let _ = std::fs::remove_file(&path);
            r
        })();
        push(21, aux, b);
    }
    // 22 mmap vec
    let b = (|| -> Option<Vec<u8>> {
        let path = scratch("seed-mmapvec.bin")?;
        let _ = std::fs::remove_file(&path);
        let cfg = MmapVecConfig::builder().with_initial_capacity(8).build();
        let mut v = MmapVec::<u64>::create(&path, cfg).ok()?;
        for x in &vals {
            v.push(*x).ok()?;
        }
        v.sync().ok()?;
        drop(v);
        let r = std::fs::read(&path).ok();
        let _ = std::fs::remove_file(&path);
        r
    })();
    push(22, 0, b.clone());
    push(22, 1, b);
    // 24 reorder-map entry tapes (every tape is well-formed by construction)
    push(24, 0, Some(vec![0, 5, 1, 1, 9, 2, 4, 1, 3, 19]));
    push(24, 1, Some(vec![1, 7, 2, 2, 8, 0, 0, 0x21, 3, 0]));
    // 23 rANS with the fixed model
    fn rans<V: zipora::entropy::rans::ParallelVariant>(msg: &[u8]) -> Option<Vec<u8>> {
        let e = Rans64Encoder::<V>::new(&rans_freqs()).ok()?;
        e.encode(msg).ok().map(|b| with_len(msg.len(), &b))
    }
    push(23, 0, rans::<ParallelX1>(msg));
    push(23, 1, rans::<ParallelX2>(msg));
    push(23, 2, rans::<ParallelX4>(msg));
    push(23, 3, rans::<ParallelX8>(msg));
    out
}
