#!/usr/bin/env python3
"""Inserts the cfg(zipora_verif) schedule points into the lock-free pool free lists of /repo
(additive only). Kept here so the hook commit can be regenerated after the code around it
changes."""
import sys
root = sys.argv[1] if len(sys.argv) > 1 else '/repo'
def patch(path, edits):
    s=open(root+'/'+path).read()
    for old,new in edits:
        assert s.count(old)==1, (path, old[:70], s.count(old))
        s=s.replace(old,new)
    open(root+'/'+path,'w').write(s)
def Y(n,ind): return f"{ind}#[cfg(zipora_verif)]\n{ind}crate::verif_hooks::yield_point({n});\n"

# ---- secure_pool.rs LockFreeStack: push is lock-free (sites inside); pop holds pop_lock, so
# the only site is before the lock is taken
patch('src/memory/secure_pool.rs', [
 ("""            let head = self.head.load(Ordering::Acquire);
            unsafe {
                (*new_node).next = head;
            }

            if self
                .head
                .compare_exchange_weak(head, new_node, Ordering::Release, Ordering::Relaxed)
                .is_ok()
            {
                break;
            }
""",
  """            let head = self.head.load(Ordering::Acquire);
"""+Y(100,"            ")+"""            unsafe {
                (*new_node).next = head;
            }

            if self
                .head
                .compare_exchange_weak(head, new_node, Ordering::Release, Ordering::Relaxed)
                .is_ok()
            {
"""+Y(102,"                ")+"""                break;
            }
"""+Y(101,"            ")),
 ("""    fn pop(&self) -> Option<T> {
""",
  """    fn pop(&self) -> Option<T> {
"""+Y(110,"        ")),
])

# ---- lockfree_pool.rs
patch('src/memory/lockfree_pool.rs', [
 ("""            let packed = bin.head.load(Ordering::Acquire);
            let (current_offset, current_gen) = Self::unpack_head(packed);

            if current_offset == LIST_TAIL {""",
  """            let packed = bin.head.load(Ordering::Acquire);
            let (current_offset, current_gen) = Self::unpack_head(packed);
"""+Y(200,"            ")+"""
            if current_offset == LIST_TAIL {"""),
 ("""                *(current_ptr.as_ptr() as *const u32)
            };
""",
  """                *(current_ptr.as_ptr() as *const u32)
            };
"""+Y(201,"            ")),
 ("""                    bin.count.fetch_sub(1, Ordering::Release);
""",
  Y(202,"                    ")+"""                    bin.count.fetch_sub(1, Ordering::Release);
"""),
 ("""            unsafe {
                *(ptr.as_ptr() as *mut u32) = current_offset;
            }
""",
  Y(210,"            ")+"""            unsafe {
                *(ptr.as_ptr() as *mut u32) = current_offset;
            }
"""+Y(211,"            ")),
 ("""                    // Success! Update count
                    bin.count.fetch_add(1, Ordering::Relaxed);
""",
  """                    // Success! Update count
"""+Y(212,"                    ")+"""                    bin.count.fetch_add(1, Ordering::Relaxed);
"""),
 ("""        let offset = self.next_offset.fetch_add(aligned_size as u32, Ordering::Relaxed);
""",
  """        let offset = self.next_offset.fetch_add(aligned_size as u32, Ordering::Relaxed);
"""+Y(220,"        ")),
])
s=open(root+'/src/memory/lockfree_pool.rs').read()
old="""                    self.backoff(retry);
"""
assert s.count(old)==2
s=s.replace(old, Y(203,"                    ")+old)
open(root+'/src/memory/lockfree_pool.rs','w').write(s)

# ---- five_level_pool.rs LockFreePool
patch('src/memory/five_level_pool.rs', [
 ("""                let (current_head, generation) = LockFreeFreeListHead::unpack(current_packed);
                if current_head == u32::MAX {
                    break; // No free blocks
                }
""",
  """                let (current_head, generation) = LockFreeFreeListHead::unpack(current_packed);
"""+Y(300,"                ")+"""                if current_head == u32::MAX {
                    break; // No free blocks
                }
"""),
 ("""                    let ptr = memory.offset_ptr(current_head as usize) as *const u32;
                    *ptr
                };
""",
  """                    let ptr = memory.offset_ptr(current_head as usize) as *const u32;
                    *ptr
                };
"""+Y(301,"                ")),
 ("""                    Ok(_) => {
                        head.count.fetch_sub(1, Ordering::Relaxed);""",
  """                    Ok(_) => {
"""+Y(302,"                        ")+"""                        head.count.fetch_sub(1, Ordering::Relaxed);"""),
 ("""        // Fall back to mutex allocation
        let mut memory = self.memory.lock()
            .map_err(|e| ZiporaError::resource_busy(format!("Memory mutex poisoned: {}", e)))?;
        if !memory.can_allocate(size) {
            return Err(ZiporaError::resource_exhausted("Out of memory"));
        }

        let offset = MemOffset::new(memory.size);
        memory.size += size;
        Ok(offset)
    }

    fn free_to_fast_bin_lockfree""",
  Y(304,"        ")+"""        // Fall back to mutex allocation
        let mut memory = self.memory.lock()
            .map_err(|e| ZiporaError::resource_busy(format!("Memory mutex poisoned: {}", e)))?;
        if !memory.can_allocate(size) {
            return Err(ZiporaError::resource_exhausted("Out of memory"));
        }

        let offset = MemOffset::new(memory.size);
        memory.size += size;
        Ok(offset)
    }

    fn free_to_fast_bin_lockfree"""),
 ("""                let (current_head, generation) = LockFreeFreeListHead::unpack(current_packed);

                // Write next pointer into freed block""",
  """                let (current_head, generation) = LockFreeFreeListHead::unpack(current_packed);
"""+Y(310,"                ")+"""
                // Write next pointer into freed block"""),
 ("""                    let ptr = memory.offset_ptr(offset.to_usize()) as *mut u32;
                    *ptr = current_head;
                }
""",
  """                    let ptr = memory.offset_ptr(offset.to_usize()) as *mut u32;
                    *ptr = current_head;
                }
"""+Y(311,"                ")),
 ("""                    Ok(_) => {
                        head.count.fetch_add(1, Ordering::Relaxed);
                        self.fragment_size.fetch_add(size, Ordering::Relaxed);""",
  """                    Ok(_) => {
"""+Y(312,"                        ")+"""                        head.count.fetch_add(1, Ordering::Relaxed);
                        self.fragment_size.fetch_add(size, Ordering::Relaxed);"""),
])
s=open(root+'/src/memory/five_level_pool.rs').read()
old="""                    Err(_) => {
                        // Retry loop
                        std::hint::spin_loop();
"""
assert s.count(old)==2
s=s.replace(old, """                    Err(_) => {
"""+Y(303,"                        ")+"""                        // Retry loop
                        std::hint::spin_loop();
""")
open(root+'/src/memory/five_level_pool.rs','w').write(s)

# ---- fixed_capacity_pool.rs
patch('src/memory/fixed_capacity_pool.rs', [
 ("""            let (current_head, generation) = FreeListHead::unpack(current_packed);
            
            if current_head == LIST_TAIL {
                // Try to split from larger size class""",
  """            let (current_head, generation) = FreeListHead::unpack(current_packed);
"""+Y(400,"            ")+"""            
            if current_head == LIST_TAIL {
                // Try to split from larger size class"""),
 ("""            let next_offset = header.next;

""",
  """            let next_offset = header.next;
"""+Y(401,"            ")+"""
"""),
 ("""                free_list.count.fetch_sub(1, Ordering::Relaxed);
                return NonNull::new(block_ptr)""",
  Y(402,"                ")+"""                free_list.count.fetch_sub(1, Ordering::Relaxed);
                return NonNull::new(block_ptr)"""),
 ("""            
            // CAS failed, retry
""",
  """            
"""+Y(403,"            ")+"""            // CAS failed, retry
"""),
 ("""            let (current_head, generation) = FreeListHead::unpack(current_packed);
            header.next = current_head;

""",
  """            let (current_head, generation) = FreeListHead::unpack(current_packed);
"""+Y(410,"            ")+"""            header.next = current_head;
"""+Y(411,"            ")+"""
"""),
 ("""                free_list.count.fetch_add(1, Ordering::Relaxed);
                return Ok(());
            }
        }
    }

    /// Find appropriate size class for allocation""",
  Y(412,"                ")+"""                free_list.count.fetch_add(1, Ordering::Relaxed);
                return Ok(());
            }
"""+Y(413,"            ")+"""        }
    }

    /// Find appropriate size class for allocation"""),
])
print("pool hooks applied")
