#!/usr/bin/env python3
"""Regenerates /verif/MANIFEST.json from the table below (kept in one place so the manifest is
always valid and consistent with what is built)."""
import json, os
ROOT = os.path.dirname(os.path.dirname(os.path.abspath(__file__)))
props = [json.loads(l) for l in open(os.path.join(ROOT, "properties.jsonl"))]
ids = [p["id"] for p in props]

# id -> dict(level, text, note, technique, design_ref)
CLAIMED = json.load(open(os.path.join(ROOT, "bin", "claims.json")))

checks = []
na = []
for i in ids:
    c = CLAIMED.get(i)
    if not c or c.get("not_applicable"):
        na.append({"property_id": i, "reason": (c or {}).get("reason", "check not built yet (work in progress; see DESIGN.md section 8 for the order of work)")})
        continue
    checks.append({
        "property_id": i,
        "quick_cmd": f"bin/check {i} quick",
        "thorough_cmd": f"bin/check {i} thorough",
        "evidence_file": f"/verif/evidence/{i}.json",
        "replay_cmd_template": f"harness/target/release/verif replay {i} {{path}}",
        "engine": "verif-harness",
        "level_claimed": {"category": c["level"], "text": c["text"], "design_ref": c.get("design_ref", f"DESIGN.md section 3, {i}")},
        "level_note": c["note"],
        "technique": c["technique"],
    })

hooks_commits = json.load(open(os.path.join(ROOT, "bin", "hooks.json")))
m = {
    "version": 1,
    "setup_cmd": "bin/build",
    "hooks": {
        "guard": "zipora_verif",
        "enable": "RUSTFLAGS=\"--cfg zipora_verif\" (set in harness/.cargo/config.toml and by bin/build for the ASan flavour); the harness depends on zipora by path=/repo so every check rebuilds from the working tree",
        "baseline_off_cmd": "cd /repo && (cargo nextest run --workspace --no-fail-fast --test-threads 8 --offline || cargo test --workspace --lib --tests --no-fail-fast --offline)",
        "source_commits": hooks_commits,
        "add_only": True,
    },
    "engines": [
        {"name": "verif-harness", "path": "harness", "serves_properties": [c["property_id"] for c in checks],
         "kind_free_text": "Rust binary: proptest-driven supervisor (generation, shrinking, known-finding classification, evidence) + crash-contained worker processes in two build flavours (release semantics; overflow-checks+debug-assertions+AddressSanitizer on nightly); cooperative scheduler behind cfg(zipora_verif) yield points for the schedule-quantified properties"},
    ],
    "checks": checks,
    "not_applicable": na,
    "notes": "Exit codes of every command: 0 = property held on everything explored (KNOWN-FINDING lines may be printed for entries of known_findings.json), 1 = VIOLATION line printed, 2 = inconclusive (harness does not build against the edited tree, or watchdog). VERIF_SEED seeds every generator; VERIF_JOBS caps worker processes (default 16).",
}
json.dump(m, open(os.path.join(ROOT, "MANIFEST.json"), "w"), indent=1)
print(f"MANIFEST.json: {len(checks)} checks, {len(na)} not_applicable")
