#!/usr/bin/env python3
"""merge_known.py <agent_known.json> <PROP> [sig_substring=commit ...]
Merges a builder's known-finding entries for PROP into /verif/known_findings.json. Entries whose
signature contains one of the given substrings are recorded as fixed by that commit."""
import json,sys
src=json.load(open(sys.argv[1])); prop=sys.argv[2]
fixed=[a.split('=',1) for a in sys.argv[3:]]
dst=json.load(open('/verif/known_findings.json'))
have={(f['property'],f['signature']) for f in dst['findings']}
n=0
for f in src['findings']:
    if f['property']!=prop or (prop,f['signature']) in have: continue
    what=f['what']
    if what.startswith('property='+prop+' '): what=what[len('property='+prop+' '):]
    e={"property":prop,"signature":f['signature'],"status":"known","what":what,"example":f.get('example')}
    if f.get('status')=='fixed' and f.get('commit'):
        e['status']='fixed'; e['commit']=f['commit']
        if not what.startswith('fixed:'): e['what']=f"fixed: property={prop} {f['commit']} {what}"
    for sub,commit in fixed:
        if sub in f['signature']:
            e['status']='fixed'; e['commit']=commit; e['what']=f"fixed: property={prop} {commit} {what}"
            break
    if e['example'] and e['example'].startswith('/tmp/'):
        e['example']='corpus/'+e['example'].split('/corpus/',1)[1]
    dst['findings'].append(e); n+=1
json.dump(dst,open('/verif/known_findings.json','w'),indent=2)
print('merged',n)
