#!/usr/bin/env python3
"""Regenerates the table between the SEEDED-TABLE markers of DESIGN.md from /verif/seeded/*/meta.json."""
import subprocess
t = subprocess.check_output(['python3', '/verif/bin/seeded_table.py']).decode()
p = '/verif/DESIGN.md'
s = open(p).read()
a = s.index('<!-- SEEDED-TABLE-BEGIN -->') + len('<!-- SEEDED-TABLE-BEGIN -->')
b = s.index('<!-- SEEDED-TABLE-END -->')
open(p, 'w').write(s[:a] + '\n' + t + '\n' + s[b:])
print('updated')
