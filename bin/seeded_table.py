#!/usr/bin/env python3
"""Prints the DESIGN section-10 table from /verif/seeded/*/meta.json."""
import json, glob, os
rows = []
for d in sorted(glob.glob('/verif/seeded/*/')):
    if not os.path.exists(d + 'meta.json'): continue
    m = json.load(open(d + 'meta.json'))
    v = m.get('verified_by_coordinator', {})
    name = os.path.basename(d.rstrip('/'))
    sigs = v.get('violation_signatures', [])
    short = sorted({'/'.join(s.split('@')[0].split('/')[:3]) for s in sigs})
    det = v.get('detected')
    rows.append((name, m.get('summary', '')[:150].replace('|', '/').replace('\n', ' '), m.get('needs_to_manifest', '')[:170].replace('|', '/').replace('\n', ' '),
                 'yes' if v.get('demo_confirms') else 'NO', ('caught (%s, %ss)%s' % (v.get('check_flavours', '?'), v.get('check_wall_s', '?'), ' after strengthening' if any(e.get('detected') is False for e in v.get('earlier_evaluations', [])) else '')) if det else ('MISSED' if det is False else 'not run'),
                 ', '.join(short[:3]) + (' ...' if len(short) > 3 else '')))
print('| seeded change | what was changed | needs to manifest | demo confirmed | quick check | violation signatures (cell/aspect/kind) |')
print('|---|---|---|---|---|---|')
for r in rows:
    print('| ' + ' | '.join(r) + ' |')
print()
print(f'{sum(1 for r in rows if r[4].startswith("caught"))} of {len(rows)} caught by the quick tier.')
