#!/usr/bin/env python3
"""bin/eval_seed.py cNN A|B [--with-b]
Confirms a seeded change (demo fails with it / passes without it, in the seeding agent's scratch
worktree), then applies it to /repo, runs the property's quick check, undoes it, and stores the
change with the outcome under /verif/seeded/CNN-X/."""
import json, os, re, shutil, subprocess, sys, time
lid, ch = sys.argv[1], sys.argv[2]
with_b = "--with-b" in sys.argv
skip_demo = "--skip-demo" in sys.argv
PID = lid.upper()
src = f"/tmp/seed-{lid}/out/{ch}"
wt = f"/tmp/seed-{lid}/wt"
dst = f"/verif/seeded/{PID}-{ch}"
os.makedirs(dst, exist_ok=True)
if not os.path.exists(os.path.join(src, "patch.diff")) and os.path.exists(os.path.join(dst, "patch.diff")):
    # the seeding agent's workspace is gone: re-evaluate the stored copy
    src = dst
patch = os.path.join(src, "patch.diff")
demo = os.path.join(src, "demo.rs")
def sh(cmd, cwd=None, env=None, timeout=3600):
    r = subprocess.run(cmd, shell=True, cwd=cwd, env=env, capture_output=True, text=True, timeout=timeout)
    return r.returncode, r.stdout + r.stderr
res = {}
# 1. demo with / without the change in the scratch worktree
if skip_demo and os.path.exists(os.path.join(dst, "meta.json")):
    prev = json.load(open(os.path.join(dst, "meta.json"))).get("verified_by_coordinator", {})
    for k in ("patch_applies_to_scratch_worktree", "demo_with_change", "demo_without_change", "demo_confirms"):
        res[k] = prev.get(k)
else:
    sh("git checkout -- . ; rm -f tests/seeded_demo_*.rs", cwd=wt)
    rc, out = sh(f"git apply --check {patch}", cwd=wt)
    res["patch_applies_to_scratch_worktree"] = rc == 0
    name = f"seeded_demo_{ch.lower()}"
    shutil.copy(demo, f"{wt}/tests/{name}.rs")
    sh(f"git apply {patch}", cwd=wt)
    rc1, o1 = sh(f"cargo test --offline --test {name} 2>&1 | tail -40", cwd=wt)
    m1 = re.findall(r"test result: (\w+)\. (\d+) passed; (\d+) failed", o1)
    sh("git checkout -- src", cwd=wt)
    rc2, o2 = sh(f"cargo test --offline --test {name} 2>&1 | tail -40", cwd=wt)
    m2 = re.findall(r"test result: (\w+)\. (\d+) passed; (\d+) failed", o2)
    os.remove(f"{wt}/tests/{name}.rs")
    sh("git checkout -- .", cwd=wt)
    res["demo_with_change"] = (m1[-1] if m1 else ("build-failed?", o1[-300:]))
    res["demo_without_change"] = (m2[-1] if m2 else ("build-failed?", o2[-300:]))
    res["demo_confirms"] = bool(m1 and m2 and m1[-1][0] == "FAILED" and m2[-1][0] == "ok")
# 2. the property's quick check against /repo with the change applied
rc, out = sh("git status --porcelain --untracked-files=no", cwd="/repo")
assert out.strip() == "", "repo not clean: " + out
rc, out = sh(f"git apply --check {patch}", cwd="/repo")
res["patch_applies_to_repo_head"] = rc == 0
if rc == 0:
    sh(f"git apply {patch}", cwd="/repo")
    try:
        env = dict(os.environ)
        if not with_b:
            env["VERIF_SKIP_B"] = "1"; env["VERIF_WORKER_B"] = "none"
        t0 = time.time()
        rc, out = sh(f"/verif/bin/check {PID} quick", cwd="/verif", env=env, timeout=5400)
        res["check_exit"] = rc
        res["check_wall_s"] = round(time.time() - t0, 1)
        res["check_flavours"] = "A+B" if with_b else "A"
        sigs = re.findall(r"signature: (\S+)", out)
        res["violation_signatures"] = sigs[:12]
        res["detected"] = rc == 1 and len(sigs) > 0
        summ = [l for l in out.splitlines() if re.match(r"^C\d+ quick:", l)]
        res["check_summary"] = summ[-1] if summ else out[-400:]
        # keep the shrunk reproducers of this run
        rp = f"/verif/replays/{PID}"
        if os.path.isdir(rp):
            k = os.path.join(dst, "replays_found")
            shutil.rmtree(k, ignore_errors=True)
            shutil.copytree(rp, k)
            shutil.rmtree(rp, ignore_errors=True)
    finally:
        sh("git checkout -- .", cwd="/repo")
# keep the outcome of earlier evaluations (a miss before a check was strengthened stays visible)
try:
    prevv = json.load(open(os.path.join(dst, "meta.json"))).get("verified_by_coordinator", {})
    hist = prevv.get("earlier_evaluations", [])
    if "detected" in prevv:
        hist.append({"detected": prevv.get("detected"), "check_summary": prevv.get("check_summary"), "verif_commit": prevv.get("verif_commit")})
    if hist:
        res["earlier_evaluations"] = hist
except Exception:
    pass
res["verif_commit"] = sh("git -C /verif rev-parse --short HEAD")[1].strip() + ("+dirty" if sh("git -C /verif status --porcelain -- harness bin")[1].strip() else "")
if src != dst:
    shutil.copy(patch, os.path.join(dst, "patch.diff"))
    shutil.copy(demo, os.path.join(dst, "demo.rs"))
meta = json.load(open(os.path.join(src, "meta.json")))
meta["verified_by_coordinator"] = res
json.dump(meta, open(os.path.join(dst, "meta.json"), "w"), indent=1)
print(PID, ch, "demo_confirms=", res["demo_confirms"], "detected=", res.get("detected"), res.get("violation_signatures", [])[:3], res.get("check_summary", "")[:160])
