#!/usr/bin/env python3
"""Rebuild the C15 entries of known_findings.json and corpus/C15 from the replay files of the
unchanged tree.  Every observed signature must be mapped to a diagnosed root cause below."""
import json, glob, re, os, sys, fnmatch
ROOT='/tmp/vb-c15'
CAP='panic:raw_vec.mod.rs:capacity overflow'
# (cell glob, kinds, root id)
MM_ARG='alloc/mismatch/by_len_arg'; MM_HDR='alloc/mismatch/by_header_field'; REF='exec/alloc/alloc_refused'; CAPK='parse/panic/'+CAP
LEN3=[MM_ARG,REF,CAPK]; HDR32=[MM_HDR,REF]; HDR64=[MM_HDR,REF,CAPK]
RULES=[
 ('huff_decode',LEN3,'R1'), ('compressor_huffman',HDR32,'R1'),
 ('ctx_decode_o*',LEN3,'R2'),
 ('il_decode_x*',LEN3,'R3'),
 ('ctx_huff_deser',HDR32,'R4'),
 ('ctx_huff_deser',['use/panic/panic:entropy.huffman.rs:index out of bounds*'],'R4b'),
 ('rans_decode_x1',LEN3,'R5a'), ('rans_decode_x[248]',LEN3,'R5b'),
 ('compressor_rans',HDR32,'R5c'),
 ('simd_varint_batch',LEN3,'R6'),
 ('data_input_*',LEN3+[MM_HDR],'R7'),
 ('complex_*',HDR64,'R8'), ('smart_ptr_deser',HDR64,'R8'), ('versioned_deser',HDR64,'R8'),
 ('varint_*',HDR64,'R9'),
 ('fse_*',HDR32,'R10'), ('pazip_remove_fse',HDR32,'R10'),
 ('compressor_lz4',HDR32,'R11'), ('adaptive_decompress',HDR32,'R11'),
 ('dict_decompress',HDR32,'R12'), ('optdict_decompress',HDR32,'R12'), ('compressor_dictionary',HDR32,'R12'),
 ('compressor_hybrid',HDR32,'R12h'),
 ('simd_lz77_decompress',HDR32,'R12s'), ('pazip_decompress',HDR32,'R12p'),
 ('zipoffset_load',['exec/crash/SIGABRT',MM_HDR,REF],'R13'),
 ('mmap_vec_open',['exec/crash/SIGSEGV'],'R14'),
]
ROOTS={
 'R1':('HuffmanDecoder::decode reserves Vec::with_capacity(output_length) for the caller/header-supplied length before looking at the input (src/entropy/huffman.rs:803; HuffmanCompressor::decompress passes the raw u32 original_size header field, src/compression/mod.rs:420)','01-huffman-decoders-cap-reservation.diff'),
 'R2':('ContextualHuffmanDecoder::decode / decode_order0/1/2 reserve Vec::with_capacity(output_length) for the caller-supplied length (src/entropy/huffman.rs:1882,1911,1961,1994)','01-huffman-decoders-cap-reservation.diff'),
 'R3':('ContextualHuffmanEncoder::decode_xn allocates vec![0u8; output_size] for the caller-supplied size without relating it to the input (src/entropy/huffman.rs:1563)','02-huffman-decode-xn-validate-output-size.diff'),
 'R4':('ContextualHuffmanEncoder::deserialize reserves Vec::with_capacity(tree_count) for a raw u32 header field (src/entropy/huffman.rs:1350)','03-contextual-huffman-deserialize-validates-model.diff'),
 'R4b':('ContextualHuffmanEncoder::deserialize accepts a model with zero trees / dangling context-map indices; the decoders then index trees[0] / trees[tree_idx] out of bounds (src/entropy/huffman.rs:1886,1976,2013,1613)','03-contextual-huffman-deserialize-validates-model.diff'),
 'R5a':('Rans64Decoder::decode_single reserves Vec::with_capacity(output_length) for the caller-supplied length (src/entropy/rans.rs:553); with a one-symbol model (freq = TOTFREQ) symbols cost zero bits, so the output of the requested size is produced from an 8-byte input (design: output length is trusted)','04-rans-decode-single-cap-reservation.diff (reservation only)'),
 'R5b':('Rans64Decoder::decode_parallel allocates vec![0u8; output_length] plus one index vector entry per output byte for the caller-supplied length before any stream is decoded (src/entropy/rans.rs:612-625); no input-derived bound exists because a probability-1 symbol costs zero bits',None),
 'R5c':('RansCompressor::decompress passes the raw u32 original_size header field to Rans64Decoder::decode (src/compression/mod.rs:518-529 -> rans.rs:553)','04-rans-decode-single-cap-reservation.diff (reservation only)'),
 'R6':('SimdVarintCodec::decode_batch reserves Vec::with_capacity(count) u64s for the caller-supplied count although every varint needs at least one input byte (src/io/simd_encoding/varint.rs:181)','05-simd-varint-decode-batch-validates-count.diff'),
 'R7':('DataInput::read_vec allocates vec![0u8; len] before reading; len comes from a varint length prefix (read_length_prefixed_bytes/string) or the caller (src/io/data_input.rs:40)','07-data-input-read-vec-grows-with-data.diff'),
 'R8':('collection / string deserialisers trust a u32 or varint count: HashMap/HashSet::with_capacity(len) (src/io/complex_types.rs:216,243), deserialize_batch Vec::with_capacity(count) (:500), Vec<T>::deserialize Vec::with_capacity(len) (src/io/smart_ptr.rs:554) and String via DataInput::read_vec (src/io/data_input.rs:40)','08-io-collections-cap-reservation.diff + 07-data-input-read-vec-grows-with-data.diff'),
 'R9':('VarIntEncoder sequence decoders reserve Vec::with_capacity(count) for the LEB128 count header although every value needs at least one input byte (src/io/var_int_variants.rs:327,346,456,489,569,691,710)','06-varint-sequences-cap-reservation-by-input.diff'),
 'R10':('FseDecoder::decompress_single reserves Vec::with_capacity(original_size) for the raw u32 header field and then emits original_size symbols even when the input is exhausted (renormalize_decode never fails) (src/entropy/fse.rs:1274-1292)','09-fse-decompress-cap-reservation.diff (reservation only; the synthesised output for a one-symbol table stays)'),
 'R11':('Lz4Compressor::decompress hands the unvalidated 4-byte size prefix to lz4_flex::decompress_size_prepended, which allocates that many bytes up front (src/compression/mod.rs:284); AdaptiveCompressor starts with LZ4','10-lz4-validates-size-prefix.diff'),
 'R12':('LZ77 back-reference with a 32-bit length field: DictionaryCompressor/OptimizedDictionaryCompressor::decompress copy `length` bytes for a match token (offset 1, length up to 2^32-1), so an 11-byte input expands to gigabytes (src/entropy/dictionary.rs:475-512, 791-822); the API has no output bound',None),
 'R12h':('HybridCompressor::decompress dispatches to the Huffman (R1), rANS (R5c) and dictionary (R12) decoders and inherits their unbounded header-driven output (src/compression/mod.rs:641-656)','01/04 reduce it; the dictionary back-reference expansion stays'),
 'R12s':('SimdLz77Compressor::decompress: a Far3Long / Far2Long match carries a length of up to 2^30 and reconstruct_from_matches materialises it (placeholder bytes or overlapping copy), so a few bytes expand to gigabytes (src/compression/simd_lz77.rs:1127-1230)',None),
 'R12p':('PaZipCompressor::decompress: a Far3Long token carries a 32-bit length and copy_from_distance repeats the pattern that many times (src/compression/dict_zip/compressor.rs:695-737)',None),
 'R13':('ZipOffsetBlobStore::load_from_reader trusts header.content_bytes (u64): FastVec::reserve(content_bytes) hits zipora_verify! (process abort, src/containers/fast_vec.rs:282) or allocates, then vec![0u8; content_bytes] (src/blob_store/zip_offset.rs:402-403)','11-zipoffset-load-reads-content-without-trusting-header.diff'),
 'R14':('(found on tree 2bf15f9; repaired meanwhile by /repo commit 26528a0, which this check confirms: reproducer now returns Err) MmapVec::open validates only length <= capacity, not that capacity fits the mapped file: get()/as_slice() then read past the mapping (SIGSEGV) (src/memory/mmap_vec.rs:67-82, 803-807, 468-503)','12-mmap-vec-open-validates-capacity-against-mapping.diff'),
}
def root_of(sig):
    cell,rest=sig.split('/',1)
    for cg,ks,r in RULES:
        if fnmatch.fnmatchcase(cell,cg) and any(fnmatch.fnmatchcase(rest,k) for k in ks): return r
    return None
def slug(sig):
    s=sig.replace('panic:','').replace('raw_vec.mod.rs:capacity overflow','capacity_overflow')
    s=re.sub(r'[^A-Za-z0-9]+','_',s).strip('_')
    return s[:90]
dirs=sys.argv[1:] or sorted(glob.glob(ROOT+'/replays-run*'))+[ROOT+'/replays/C15']
seen={}
for d in dirs:
    for f in sorted(glob.glob(d+'/*.json')):
        j=json.load(open(f))
        sig=j['signature'].split('@')[0]
        case=j['case']; fl=j.get('flavour','A')
        if sig not in seen or len(json.dumps(case))<len(json.dumps(seen[sig][0])): seen[sig]=(case,fl)
# keep existing corpus examples
os.makedirs(ROOT+'/corpus/C15',exist_ok=True)
for f in glob.glob(ROOT+'/corpus/C15/*.json'):
    j=json.load(open(f))
    if 'signature' in j and j['signature'] not in seen: seen[j['signature']]=(j['case'],j.get('flavour','A'))
unm=[s for s in seen if root_of(s) is None]
if unm:
    print('UNMAPPED (diagnose first):'); [print('  ',s, json.dumps(seen[s][0])[:300]) for s in unm]
kf=json.load(open(ROOT+'/known_findings.json'))
kf['findings']=[f for f in kf['findings'] if f['property']!='C15']
KINDS=['alloc/mismatch/by_len_arg','alloc/mismatch/by_header_field','use_alloc/mismatch/by_header_field','exec/alloc/alloc_refused','parse/panic/'+CAP]
def expand(kg):
    if '*' not in kg: return [kg]
    return [k for k in KINDS if fnmatch.fnmatchcase(k,kg)] or [kg]
# examples per (rule, kind)
for f in glob.glob(ROOT+'/corpus/C15/*.json'): os.remove(f)
entries=[]
for cg,ks,r in RULES:
    fam=[s2 for s2 in sorted(seen) if fnmatch.fnmatchcase(s2.split('/',1)[0],cg) and root_of(s2)==r]
    if not fam: continue               # root cause never reproduced for this cell family: not listed
    for k in ks:
        pat=cg.replace('[248]','*')+'/'+k
        if cg=='rans_decode_x[248]': pat='rans_decode_x*/'+k   # x1 has the same three kinds (R5a)
        ex=[s2 for s2 in sorted(seen) if fnmatch.fnmatchcase(s2.split('/',1)[0],cg) and fnmatch.fnmatchcase(s2.split('/',1)[1],k)]
        reproduced=bool(ex)
        sig=(ex or fam)[0]; case,fl=seen[sig]
        name=slug(sig)+'.json'
        json.dump({'case':case,'flavour':fl,'signature':sig,'root':r},open(ROOT+'/corpus/C15/'+name,'w'))
        what,fix=ROOTS[r]
        if any(e['signature']==pat for e in entries): continue
        entries.append({'property':'C15','signature':pat,'status':('fixed' if r=='R14' else 'known'),'commit':('26528a0' if r=='R14' else None),'what':f'[{r}] {what}'+(f' -- proposed fix: fixes/{fix}' if fix else ' -- no local repair (design-level)'),'example':'corpus/C15/'+name+('' if reproduced else ' (same reservation, different magnitude of the length value)')})
kf['findings']+=entries
json.dump(kf,open(ROOT+'/known_findings.json','w'),indent=1)
cov=[s2 for s2 in seen if not any(fnmatch.fnmatchcase(s2,e['signature']) for e in entries)]
print(len(seen),'signatures,',len(entries),'entries; uncovered:',cov)
